/-
  Helper lemmas for C09 `sound_subset`: what shorten-only note-length quantisation of one piece
  (`requantPiece … true`) does to the sounding set.
-/
import SCoda.Lemmas.SplitBars
import SCoda.Lemmas.NoteLengths
import SCoda.Props.C06
namespace SCoda.SB
open SCoda SCoda.SplitL SCoda.BarL

/-! ### the sort key is a total preorder; the stable sort commutes with filtering -/

theorem keyLe_iff (a b : Msg) : keyLe a b = true ↔
    a.time < b.time ∨ (a.time = b.time ∧ (a.ch < b.ch ∨ (a.ch = b.ch ∧
      (a.ty.rank < b.ty.rank ∨ (a.ty.rank = b.ty.rank ∧ a.note ≤ b.note))))) := by
  unfold keyLe
  by_cases h1 : a.time < b.time
  · rw [if_pos h1]; exact ⟨fun _ => Or.inl h1, fun _ => rfl⟩
  · rw [if_neg h1]
    by_cases h2 : b.time < a.time
    · rw [if_pos h2]; exact ⟨fun h => Bool.noConfusion h, fun h => by omega⟩
    · rw [if_neg h2]
      by_cases h3 : a.ch < b.ch
      · rw [if_pos h3]; exact ⟨fun _ => by omega, fun _ => rfl⟩
      · rw [if_neg h3]
        by_cases h4 : b.ch < a.ch
        · rw [if_pos h4]; exact ⟨fun h => Bool.noConfusion h, fun h => by omega⟩
        · rw [if_neg h4]
          by_cases h5 : a.ty.rank < b.ty.rank
          · rw [if_pos h5]; exact ⟨fun _ => by omega, fun _ => rfl⟩
          · rw [if_neg h5]
            by_cases h6 : b.ty.rank < a.ty.rank
            · rw [if_pos h6]; exact ⟨fun h => Bool.noConfusion h, fun h => by omega⟩
            · rw [if_neg h6, decide_eq_true_eq]
              exact ⟨fun _ => by omega, fun h => by omega⟩

theorem keyLe_trans {a b c : Msg} (h1 : keyLe a b = true) (h2 : keyLe b c = true) : keyLe a c = true := by
  rw [keyLe_iff] at *
  omega

theorem keyLe_total (a b : Msg) : keyLe a b = true ∨ keyLe b a = true := by
  rw [keyLe_iff, keyLe_iff]
  omega

/-- sorted by the full sort key -/
def KSorted (l : List Msg) : Prop := l.Pairwise (fun a b => keyLe a b = true)

theorem ins_head (x : Msg) (l : List Msg) (h : ∀ z ∈ l, keyLe x z = true) : ins keyLe x l = x :: l := by
  cases l with
  | nil => rfl
  | cons y ys => simp [ins, h y List.mem_cons_self]

theorem ins_ksorted (x : Msg) (l : List Msg) (h : KSorted l) : KSorted (ins keyLe x l) := by
  induction l with
  | nil => simp [ins, KSorted]
  | cons y ys ih =>
    unfold KSorted at h ih ⊢
    rw [List.pairwise_cons] at h
    simp only [ins]
    split
    · rename_i hle
      refine List.pairwise_cons.2 ⟨?_, List.pairwise_cons.2 h⟩
      intro z hz
      rcases List.mem_cons.1 hz with rfl | hz
      · exact hle
      · exact keyLe_trans hle (h.1 z hz)
    · rename_i hle
      have hyx : keyLe y x = true := by
        rcases keyLe_total x y with h1 | h1
        · exact absurd h1 hle
        · exact h1
      refine List.pairwise_cons.2 ⟨?_, ih h.2⟩
      intro z hz
      rcases List.mem_cons.1 ((ins_perm keyLe x ys).mem_iff.1 hz) with rfl | hz
      · exact hyx
      · exact h.1 z hz

theorem isort_ksorted (l : List Msg) : KSorted (isort keyLe l) := by
  induction l with
  | nil => simp [isort, KSorted]
  | cons x xs ih => exact ins_ksorted x _ ih

theorem ins_filter (p : Msg → Bool) (x : Msg) (l : List Msg) (h : KSorted l) :
    (ins keyLe x l).filter p = if p x then ins keyLe x (l.filter p) else l.filter p := by
  induction l with
  | nil => simp only [ins, List.filter_cons, List.filter_nil]
  | cons y ys ih =>
    unfold KSorted at h ih
    rw [List.pairwise_cons] at h
    simp only [ins]
    split
    · rename_i hle
      rw [List.filter_cons]
      split
      · rw [ins_head]
        intro z hz
        have hz' := (List.mem_filter.1 hz).1
        rcases List.mem_cons.1 hz' with rfl | hz'
        · exact hle
        · exact keyLe_trans hle (h.1 z hz')
      · rfl
    · rename_i hle
      rw [List.filter_cons, ih h.2, List.filter_cons]
      by_cases hy : p y = true <;> by_cases hx : p x = true <;> simp [hy, hx, ins, hle]

theorem filter_sortAbs (p : Msg → Bool) (l : List Msg) : (sortAbs l).filter p = sortAbs (l.filter p) := by
  unfold sortAbs
  induction l with
  | nil => rfl
  | cons x xs ih =>
    simp only [isort]
    rw [ins_filter p x _ (isort_ksorted xs), ih, List.filter_cons]
    split <;> rfl

theorem sortAbs_of_ksorted (l : List Msg) (h : KSorted l) : sortAbs l = l := by
  unfold sortAbs
  induction l with
  | nil => rfl
  | cons x xs ih =>
    unfold KSorted at h
    rw [List.pairwise_cons] at h
    simp only [isort]
    rw [ih h.2]
    exact ins_head x xs h.1

/-! ### nice per-key event lists: disjoint notes of positive length, in time order -/

def flat (ps : List (Msg × Msg)) : List Msg := ps.flatMap (fun p => [p.1, p.2])

theorem flat_nil : flat [] = [] := rfl
theorem flat_cons (p : Msg × Msg) (ps : List (Msg × Msg)) : flat (p :: ps) = p.1 :: p.2 :: flat ps := rfl

/-- the notes of key `k`, each a note-on and its note-off, of positive length, one after the other, none
    before `lo` -/
def NicePairs (k : Int × Int) : Int → List (Msg × Msg) → Prop
  | _, [] => True
  | lo, p :: rest => p.1.ty = .noteOn ∧ p.2.ty = .noteOff ∧ p.1.nkey = k ∧ p.2.nkey = k ∧ lo ≤ p.1.time ∧
      p.1.time < p.2.time ∧ NicePairs k p.2.time rest

theorem nice_mono (k : Int × Int) (ps : List (Msg × Msg)) (lo lo' : Int) (h : lo' ≤ lo)
    (hn : NicePairs k lo ps) : NicePairs k lo' ps := by
  cases ps with
  | nil => trivial
  | cons p rest =>
    obtain ⟨h1, h2, h3, h4, h5, h6, h7⟩ := hn
    exact ⟨h1, h2, h3, h4, by omega, h6, h7⟩

theorem nice_mem (k : Int × Int) (ps : List (Msg × Msg)) : ∀ lo, NicePairs k lo ps →
    ∀ x ∈ flat ps, lo ≤ x.time ∧ (x.ty = .noteOff → lo < x.time) ∧ x.nkey = k ∧ (x.ty = .noteOn ∨ x.ty = .noteOff) := by
  induction ps with
  | nil => intro lo _ x hx; simp [flat] at hx
  | cons p rest ih =>
    intro lo hn x hx
    obtain ⟨h1, h2, h3, h4, h5, h6, h7⟩ := hn
    rw [flat_cons] at hx
    rcases List.mem_cons.1 hx with rfl | hx
    · exact ⟨h5, fun h => (by rw [h1] at h; cases h), h3, Or.inl h1⟩
    · rcases List.mem_cons.1 hx with rfl | hx
      · exact ⟨by omega, fun _ => (by omega), h4, Or.inr h2⟩
      · obtain ⟨i1, i2, i3, i4⟩ := ih _ h7 x hx
        exact ⟨by omega, fun h => (by have := i2 h; omega), i3, i4⟩

theorem keyLe_of_lt {a b : Msg} (h : a.time < b.time) : keyLe a b = true := by
  rw [keyLe_iff]; exact Or.inl h

theorem nice_ksorted (k : Int × Int) (ps : List (Msg × Msg)) : ∀ lo, NicePairs k lo ps → KSorted (flat ps) := by
  induction ps with
  | nil => intro lo _; simp [flat, KSorted]
  | cons p rest ih =>
    intro lo hn
    have hmem := nice_mem k rest p.2.time hn.2.2.2.2.2.2
    obtain ⟨h1, h2, h3, h4, h5, h6, h7⟩ := hn
    rw [flat_cons]
    unfold KSorted
    refine List.pairwise_cons.2 ⟨?_, List.pairwise_cons.2 ⟨?_, ih _ h7⟩⟩
    · intro z hz
      rcases List.mem_cons.1 hz with rfl | hz
      · exact keyLe_of_lt h6
      · have := (hmem z hz).1
        exact keyLe_of_lt (by omega)
    · intro z hz
      obtain ⟨i1, i2, i3, i4⟩ := hmem z hz
      rw [keyLe_iff]
      by_cases hlt : p.2.time < z.time
      · exact Or.inl hlt
      · right
        refine ⟨by omega, Or.inr ⟨?_, ?_⟩⟩
        · have := congrArg Prod.fst (h4.trans i3.symm)
          exact this
        · rcases i4 with i4 | i4
          · left; rw [h2, i4]; decide
          · have := i2 i4; omega

theorem nice_filter (k : Int × Int) (ps : List (Msg × Msg)) (lo : Int) (hn : NicePairs k lo ps) :
    (flat ps).filter (isKN k) = flat ps := by
  rw [List.filter_eq_self]
  intro x hx
  obtain ⟨_, _, i3, i4⟩ := nice_mem k ps lo hn x hx
  simp [isKN, i3, i4]

theorem isKN_iff (k : Int × Int) (m : Msg) : isKN k m = true ↔ Kev k m := by
  simp [isKN, Kev]

/-- the timed `k`-events of a well-formed relative list without zero-length notes are nice -/
theorem nice_of_rel (k : Int × Int) : ∀ (l : List Msg) (c : Int), NonNegWaits l →
    (altRun k false l = some false → zl k false l →
      ∃ ps, NicePairs k c ps ∧ (eventsRelGo c l).filter (isKN k) = flat ps) ∧
    (∀ (s : Int) (f : Bool), altRun k true l = some false → zl k f l → s ≤ c → (f = false → s < c) →
      ∃ off ps, off.ty = .noteOff ∧ off.nkey = k ∧ s < off.time ∧ NicePairs k off.time ps ∧
        (eventsRelGo c l).filter (isKN k) = off :: flat ps) := by
  intro l
  induction l with
  | nil =>
    intro c _
    refine ⟨fun _ _ => ⟨[], trivial, rfl⟩, ?_⟩
    intro s f h
    simp [altRun] at h
  | cons m ms ih =>
    intro c hl
    have hl' : NonNegWaits ms := nonNegWaits_tail hl
    by_cases hw : m.ty = .wait
    · have hm0 : 0 ≤ m.time := hl m List.mem_cons_self hw
      have hnk : ¬ Kev k m := by rintro ⟨_, c | c⟩ <;> simp [hw] at c
      rw [eventsRelGo_cons_wait c m ms hw]
      constructor
      · intro h1 h2
        rw [altRun_cons_skip k _ m ms hnk] at h1
        rw [zl_cons_wait k _ m ms hw] at h2
        obtain ⟨ps, hp1, hp2⟩ := (ih (c + m.time) hl').1 h1 (by simpa using h2)
        exact ⟨ps, nice_mono k ps _ c (by omega) hp1, hp2⟩
      · intro s f h1 h2 hs hf
        rw [altRun_cons_skip k _ m ms hnk] at h1
        rw [zl_cons_wait k _ m ms hw] at h2
        refine (ih (c + m.time) hl').2 s _ h1 h2 (by omega) ?_
        intro hff
        cases f with
        | false => have := hf rfl; omega
        | true =>
          simp only [Bool.true_and, decide_eq_false_iff_not] at hff
          omega
    · rw [eventsRelGo_cons_nowait c m ms hw]
      by_cases hon : m.nkey = k ∧ m.ty = .noteOn
      · have hkn : isKN k { m with time := c } = true := (isKN_iff k _).2 ⟨hon.1, Or.inl hon.2⟩
        rw [List.filter_cons, if_pos hkn]
        constructor
        · intro h1 h2
          rw [altRun_cons_on k _ m ms hon] at h1
          simp only [Bool.false_eq_true, if_false] at h1
          rw [zl_cons_on k _ m ms hon] at h2
          obtain ⟨off, ps, o1, o2, o3, o4, o5⟩ := (ih c hl').2 c true h1 h2 (Int.le_refl c) (fun h => by cases h)
          refine ⟨({ m with time := c }, off) :: ps, ⟨hon.2, o1, hon.1, o2, Int.le_refl c, o3, o4⟩, ?_⟩
          rw [o5, flat_cons]
        · intro s f h1
          rw [altRun_cons_on k _ m ms hon] at h1
          simp at h1
      · by_cases hoff : m.nkey = k ∧ m.ty = .noteOff
        · have hkn : isKN k { m with time := c } = true := (isKN_iff k _).2 ⟨hoff.1, Or.inr hoff.2⟩
          rw [List.filter_cons, if_pos hkn]
          constructor
          · intro h1
            rw [altRun_cons_off k _ m ms hoff] at h1
            simp at h1
          · intro s f h1 h2 hs hf
            rw [altRun_cons_off k _ m ms hoff] at h1
            simp only [if_true] at h1
            rw [zl_cons_off k _ m ms hoff] at h2
            obtain ⟨ps, hp1, hp2⟩ := (ih c hl').1 h1 h2.2
            exact ⟨{ m with time := c }, ps, hoff.2, hoff.1, hf h2.1, hp1, by rw [hp2]⟩
        · have hnk : ¬ Kev k m := not_kev_of hon hoff
          have hkn : ¬ isKN k { m with time := c } = true := fun h => hnk ((isKN_iff k _).1 h)
          rw [List.filter_cons, if_neg hkn]
          constructor
          · intro h1 h2
            rw [altRun_cons_skip k _ m ms hnk] at h1
            rw [zl_cons_skip k _ m ms hw hnk] at h2
            exact (ih c hl').1 h1 h2
          · intro s f h1 h2 hs hf
            rw [altRun_cons_skip k _ m ms hnk] at h1
            rw [zl_cons_skip k _ m ms hw hnk] at h2
            exact (ih c hl').2 s f h1 h2 hs hf

theorem nice_of_first (k : Int × Int) (first : List Msg) (hw : NonNegWaits first) (hwf : WF first)
    (hz : NoZeroNotes first) : ∃ ps, NicePairs k 0 ps ∧ (eventsRel first).filter (isKN k) = flat ps :=
  (nice_of_rel k first 0 hw).1 ((wf_iff first).1 hwf k) (hz k)

/-! ### sounding and balance of nice lists -/

theorem sounding_filter (L : List Msg) (k : Int × Int) (τ : Int) :
    SoundingAt L k τ ↔ 0 < depth k ((L.filter (isKN k)).filter (fun m => decide (m.time ≤ τ))) 0 := by
  unfold SoundingAt
  rw [← depth_filter_kn k (L.filter _), List.filter_filter, List.filter_filter]
  have : (fun a => isKN k a && decide (a.time ≤ τ)) = (fun a => decide (a.time ≤ τ) && isKN k a) := by
    funext a; exact Bool.and_comm _ _
  rw [this]

theorem mem_flat {p : Msg × Msg} {ps : List (Msg × Msg)} (h : p ∈ ps) : p.1 ∈ flat ps ∧ p.2 ∈ flat ps := by
  simp only [flat, List.mem_flatMap]
  exact ⟨⟨p, h, by simp⟩, ⟨p, h, by simp⟩⟩

theorem nice_head (k : Int × Int) (p : Msg × Msg) (rest : List (Msg × Msg)) (lo : Int)
    (hn : NicePairs k lo (p :: rest)) : NicePairs k p.1.time (p :: rest) := by
  obtain ⟨h1, h2, h3, h4, _, h6, h7⟩ := hn
  exact ⟨h1, h2, h3, h4, Int.le_refl _, h6, h7⟩

/-- a nice list sounds exactly inside its notes -/
theorem sounding_nice (k : Int × Int) (τ : Int) (ps : List (Msg × Msg)) : ∀ lo, NicePairs k lo ps →
    (0 < depth k ((flat ps).filter (fun m => decide (m.time ≤ τ))) 0 ↔
      ∃ p ∈ ps, p.1.time ≤ τ ∧ τ < p.2.time) := by
  induction ps with
  | nil => intro lo _; simp [flat, depth]
  | cons p rest ih =>
    intro lo hn
    have hall := nice_mem k _ _ (nice_head k p rest lo hn)
    obtain ⟨h1, h2, h3, h4, h5, h6, h7⟩ := hn
    have hrest := nice_mem k rest _ h7
    by_cases ha : p.1.time ≤ τ
    · by_cases hb : p.2.time ≤ τ
      · rw [flat_cons, List.filter_cons, if_pos (by simpa using ha), List.filter_cons,
          if_pos (by simpa using hb), depth_cons_on k _ _ _ ⟨h3, h1⟩, depth_cons_off k _ _ _ ⟨h4, h2⟩]
        rw [show 0 + 1 - 1 = 0 from rfl, ih _ h7]
        constructor
        · rintro ⟨q, hq, hq2⟩
          exact ⟨q, List.mem_cons_of_mem _ hq, hq2⟩
        · rintro ⟨q, hq, hq2⟩
          rcases List.mem_cons.1 hq with rfl | hq
          · omega
          · exact ⟨q, hq, hq2⟩
      · have hnil : (flat rest).filter (fun m => decide (m.time ≤ τ)) = [] := by
          rw [List.filter_eq_nil_iff]
          intro x hx
          have := (hrest x hx).1
          simp only [decide_eq_true_eq]; omega
        rw [flat_cons, List.filter_cons, if_pos (by simpa using ha), List.filter_cons,
          if_neg (by simpa using hb), hnil, depth_cons_on k _ _ _ ⟨h3, h1⟩]
        simp only [depth]
        constructor
        · intro _; exact ⟨p, List.mem_cons_self, ha, by omega⟩
        · intro _; omega
    · have hnil : (flat (p :: rest)).filter (fun m => decide (m.time ≤ τ)) = [] := by
        rw [List.filter_eq_nil_iff]
        intro x hx
        have := (hall x hx).1
        simp only [decide_eq_true_eq]; omega
      rw [hnil]
      simp only [depth]
      constructor
      · intro h; omega
      · rintro ⟨q, hq, hq1, _⟩
        have := (hall q.1 (mem_flat hq).1).1
        omega

theorem balanced_nice (k : Int × Int) (ps : List (Msg × Msg)) : ∀ lo, NicePairs k lo ps →
    C07.balancedFrom k 0 (flat ps) := by
  induction ps with
  | nil => intro lo _; rfl
  | cons p rest ih =>
    intro lo hn
    obtain ⟨h1, h2, h3, h4, _, _, h7⟩ := hn
    rw [flat_cons]
    simp only [C07.balancedFrom]
    rw [if_pos ⟨h3, h1⟩, if_neg (by rw [h2]; simp), if_pos ⟨h4, h2⟩]
    exact ⟨by omega, ih _ h7⟩

theorem balancedFrom_filter (k : Int × Int) (L : List Msg) : ∀ d,
    C07.balancedFrom k d (L.filter (isKN k)) ↔ C07.balancedFrom k d L := by
  induction L with
  | nil => intro d; rfl
  | cons x xs ih =>
    intro d
    by_cases hx : isKN k x = true
    · rw [List.filter_cons, if_pos hx]
      simp only [C07.balancedFrom, ih]
    · rw [List.filter_cons, if_neg hx]
      have hnk : ¬ Kev k x := fun h => hx ((isKN_iff k x).2 h)
      have h1 : ¬ (x.nkey = k ∧ x.ty = .noteOn) := fun ⟨a, c⟩ => hnk ⟨a, Or.inl c⟩
      have h2 : ¬ (x.nkey = k ∧ x.ty = .noteOff) := fun ⟨a, c⟩ => hnk ⟨a, Or.inr c⟩
      simp only [C07.balancedFrom, if_neg h1, if_neg h2]
      exact ih d

theorem balancedFrom_events (k : Int × Int) (l : List Msg) : ∀ (c : Int) (d : Nat),
    C07.balancedFrom k d (eventsRelGo c l) ↔ C07.balancedFrom k d l := by
  induction l with
  | nil => intro c d; rfl
  | cons m ms ih =>
    intro c d
    by_cases hw : m.ty = .wait
    · rw [eventsRelGo_cons_wait c m ms hw]
      have h1 : ¬ (m.nkey = k ∧ m.ty = .noteOn) := by rw [hw]; simp
      have h2 : ¬ (m.nkey = k ∧ m.ty = .noteOff) := by rw [hw]; simp
      simp only [C07.balancedFrom, if_neg h1, if_neg h2]
      exact ih _ d
    · rw [eventsRelGo_cons_nowait c m ms hw]
      simp only [C07.balancedFrom, Msg.nkey, ih]
      exact Iff.rfl

/-- some notes dropped, the others shortened at the end -/
inductive Shrunk : List (Msg × Msg) → List (Msg × Msg) → Prop
  | nil : Shrunk [] []
  | drop (p : Msg × Msg) (ps ps' : List (Msg × Msg)) : Shrunk ps ps' → Shrunk (p :: ps) ps'
  | keep (on off off' : Msg) (ps ps' : List (Msg × Msg)) : off'.ty = off.ty → off'.nkey = off.nkey →
      on.time < off'.time → off'.time ≤ off.time → Shrunk ps ps' → Shrunk ((on, off) :: ps) ((on, off') :: ps')

theorem nice_shrunk (k : Int × Int) {ps ps' : List (Msg × Msg)} (h : Shrunk ps ps') :
    ∀ lo, NicePairs k lo ps → NicePairs k lo ps' := by
  induction h with
  | nil => intro lo h; exact h
  | drop p ps ps' _ ih =>
    intro lo hn
    obtain ⟨_, _, _, _, h5, h6, h7⟩ := hn
    exact nice_mono k _ _ lo (by omega) (ih _ h7)
  | keep on off off' ps ps' e1 e2 e3 e4 _ ih =>
    intro lo hn
    obtain ⟨h1, h2, h3, h4, h5, h6, h7⟩ := hn
    exact ⟨h1, by rw [e1]; exact h2, h3, by rw [e2]; exact h4, h5, e3, nice_mono k _ _ _ e4 (ih _ h7)⟩

theorem shrunk_mem {ps ps' : List (Msg × Msg)} (h : Shrunk ps ps') :
    ∀ p' ∈ ps', ∃ p ∈ ps, p.1 = p'.1 ∧ p'.2.time ≤ p.2.time := by
  induction h with
  | nil => intro p' hp'; simp at hp'
  | drop p ps ps' _ ih =>
    intro p' hp'
    obtain ⟨q, hq, hq2⟩ := ih p' hp'
    exact ⟨q, List.mem_cons_of_mem _ hq, hq2⟩
  | keep on off off' ps ps' e1 e2 e3 e4 _ ih =>
    intro p' hp'
    rcases List.mem_cons.1 hp' with rfl | hp'
    · exact ⟨(on, off), List.mem_cons_self, rfl, e4⟩
    · obtain ⟨q, hq, hq2⟩ := ih p' hp'
      exact ⟨q, List.mem_cons_of_mem _ hq, hq2⟩

/-! ### the pairing fold, seen from one key -/

theorem modifyAt_append_left {α} (f : α → α) (l1 l2 : List α) : ∀ i, i < l1.length →
    modifyAt f i (l1 ++ l2) = modifyAt f i l1 ++ l2 := by
  induction l1 with
  | nil => intro i h; simp at h
  | cons x xs ih =>
    intro i h
    cases i with
    | zero => rfl
    | succ i =>
      simp only [List.cons_append, modifyAt]
      rw [ih i (by simpa using h)]

theorem modifyAt_append_right {α} (f : α → α) (l1 l2 : List α) : ∀ i, l1.length ≤ i →
    modifyAt f i (l1 ++ l2) = l1 ++ modifyAt f (i - l1.length) l2 := by
  induction l1 with
  | nil => intro i _; rfl
  | cons x xs ih =>
    intro i h
    cases i with
    | zero => simp at h
    | succ i =>
      simp only [List.cons_append, modifyAt, List.length_cons]
      rw [ih i (by simpa using h)]
      simp

theorem filter_modifyAt {α} (p : α → Bool) (f : α → α) (l : List α) : ∀ i,
    (∀ x, l[i]? = some x → p x = false ∧ p (f x) = false) → (modifyAt f i l).filter p = l.filter p := by
  induction l with
  | nil => intro i _; cases i <;> rfl
  | cons y ys ih =>
    intro i h
    cases i with
    | zero =>
      obtain ⟨h1, h2⟩ := h y rfl
      simp [modifyAt, h1, h2]
    | succ i =>
      simp only [modifyAt, List.filter_cons]
      rw [ih i (fun x hx => h x (by simpa using hx))]

/-- the pairing starts with a message of key `k` -/
def isK (k : Int × Int) (p : Pairing) : Bool :=
  match p with
  | m :: _ => decide (m.nkey = k)
  | [] => false

def pairOf (p : Msg × Msg) : Pairing := [p.1, p.2]

/-- the view of key `k` in the pairing list `L` of its channel: the finished pairings `done`, and, if a note of
    `k` is open, its single-element pairing at index `io` behind which no other pairing of `k` follows -/
def KVL (k : Int × Int) (L : List Pairing) (done : List (Msg × Msg)) : Option Msg → Option Nat → Prop
  | Option.none, io => io = Option.none ∧ L.filter (isK k) = done.map pairOf
  | some on, io => ∃ l1 l2, L = l1 ++ [on] :: l2 ∧ io = some l1.length ∧ on.nkey = k ∧
      l1.filter (isK k) = done.map pairOf ∧ l2.filter (isK k) = []

theorem KVL_modify (k : Int × Int) (L : List Pairing) (done : List (Msg × Msg)) (o : Option Msg) (io : Option Nat)
    (f : Pairing → Pairing) (i : Nat) (h : KVL k L done o io)
    (hx : ∀ x, L[i]? = some x → isK k x = false ∧ isK k (f x) = false) : KVL k (modifyAt f i L) done o io := by
  cases o with
  | none =>
    obtain ⟨h1, h2⟩ := h
    exact ⟨h1, by rw [filter_modifyAt _ _ _ _ hx]; exact h2⟩
  | some on =>
    obtain ⟨l1, l2, hL, hio, hon, h1, h2⟩ := h
    subst hL
    by_cases hi : i < l1.length
    · refine ⟨modifyAt f i l1, l2, modifyAt_append_left f l1 _ i hi, ?_, hon, ?_, h2⟩
      · rw [hio]
        have : (modifyAt f i l1).length = l1.length := by
          clear hx h1 hio
          induction l1 generalizing i with
          | nil => cases i <;> rfl
          | cons y ys ih =>
            cases i with
            | zero => rfl
            | succ i => simp only [modifyAt, List.length_cons]; rw [ih i (by simpa using hi)]
        rw [this]
      · rw [filter_modifyAt _ _ _ _ ?_]
        · exact h1
        · intro x hxx
          apply hx x
          rw [List.getElem?_append_left hi]
          exact hxx
    · have hne : i ≠ l1.length := by
        intro he
        have := hx [on] (by rw [he]; simp)
        simp [isK, hon] at this
      have hgt : l1.length < i := by omega
      refine ⟨l1, modifyAt f (i - l1.length - 1) l2, ?_, hio, hon, h1, ?_⟩
      · rw [modifyAt_append_right f l1 _ i (by omega)]
        have : i - l1.length = (i - l1.length - 1) + 1 := by omega
        rw [this]
        rfl
      · rw [filter_modifyAt _ _ _ _ ?_]
        · exact h2
        · intro x hxx
          apply hx x
          rw [List.getElem?_append_right (by omega)]
          have : i - l1.length = (i - l1.length - 1) + 1 := by omega
          rw [this, List.getElem?_cons_succ]
          exact hxx

theorem KVL_snoc (k : Int × Int) (L : List Pairing) (done : List (Msg × Msg)) (o : Option Msg) (io : Option Nat)
    (x : Pairing) (h : KVL k L done o io) (hx : isK k x = false) : KVL k (L ++ [x]) done o io := by
  cases o with
  | none =>
    obtain ⟨h1, h2⟩ := h
    exact ⟨h1, by rw [List.filter_append, h2]; simp [hx]⟩
  | some on =>
    obtain ⟨l1, l2, hL, hio, hon, h1, h2⟩ := h
    subst hL
    exact ⟨l1, l2 ++ [x], by simp, hio, hon, h1, by rw [List.filter_append, h2]; simp [hx]⟩

theorem KVL_open (k : Int × Int) (L : List Pairing) (done : List (Msg × Msg)) (on : Msg)
    (h : KVL k L done Option.none Option.none) (hon : on.nkey = k) :
    KVL k (L ++ [[on]]) done (some on) (some L.length) :=
  ⟨L, [], rfl, rfl, hon, h.2, rfl⟩

theorem KVL_close (k : Int × Int) (L : List Pairing) (done : List (Msg × Msg)) (on off : Msg) (i : Nat)
    (h : KVL k L done (some on) (some i)) :
    KVL k (modifyAt (· ++ [off]) i L) (done ++ [(on, off)]) Option.none Option.none := by
  obtain ⟨l1, l2, hL, hio, hon, h1, h2⟩ := h
  subst hL
  simp only [Option.some.injEq] at hio
  subst hio
  refine ⟨rfl, ?_⟩
  rw [modifyAt_append_right _ l1 _ _ (Nat.le_refl _), Nat.sub_self]
  simp only [modifyAt, List.filter_append, List.filter_cons, h1, h2]
  simp [isK, hon, pairOf]

/-- the view of key `k` in a state of the pairing fold -/
def KV (k : Int × Int) (s : PairSt) (done : List (Msg × Msg)) (o : Option Msg) : Prop :=
  KVL k ((s.pairs.get? k.1).getD []) done o (s.opens.get? k)

theorem KV_ensure (k : Int × Int) (s : PairSt) (ch : Int) (done : List (Msg × Msg)) (o : Option Msg)
    (h : KV k s done o) : KV k (NL.ensureCh s ch) done o := by
  unfold NL.ensureCh
  split
  · exact h
  · rename_i hc
    have hn : s.pairs.get? ch = none := by
      simp only [Assoc.contains] at hc
      simpa using hc
    unfold KV at h ⊢
    simp only [NL.get?_set]
    split
    · rename_i he
      rw [← he, hn] at h
      exact h
    · exact h

theorem KV_close_other (k k' : Int × Int) (s : PairSt) (i : Nat) (off on' : Msg) (Lk : List Pairing)
    (done : List (Msg × Msg)) (o : Option Msg) (hL : s.pairs.get? k'.1 = some Lk) (hi : Lk[i]? = some [on'])
    (hon : on'.nkey = k') (hne : k' ≠ k) (h : KV k s done o) : KV k (NL.closeOp s k' i off) done o := by
  unfold KV at h ⊢
  simp only [NL.closeOp, NL.get?_set]
  rw [NL.get?_erase_ne _ _ _ hne]
  split
  · rename_i he
    rw [← he, hL] at h
    rw [hL]
    simp only [Option.getD_some] at h ⊢
    apply KVL_modify k Lk done o _ _ i h
    intro x hx
    rw [hi] at hx
    cases hx
    have : ¬ on'.nkey = k := by rw [hon]; exact hne
    simp [isK, this]
  · exact h

theorem KV_open_other (k : Int × Int) (s : PairSt) (m : Msg) (done : List (Msg × Msg)) (o : Option Msg)
    (hne : m.nkey ≠ k) (h : KV k s done o) : KV k (NL.openOp s m) done o := by
  unfold KV at h ⊢
  simp only [NL.openOp, NL.get?_set]
  rw [if_neg hne]
  split
  · rename_i he
    rw [← he] at h
    simp only [Option.getD_some]
    exact KVL_snoc k _ done o _ [m] h (by simp [isK, hne])
  · exact h

theorem KV_open_k (k : Int × Int) (s : PairSt) (m : Msg) (done : List (Msg × Msg))
    (hk : m.nkey = k) (h : KV k s done Option.none) : KV k (NL.openOp s m) done (some m) := by
  have hch : m.ch = k.1 := by rw [← hk]; rfl
  unfold KV at h ⊢
  simp only [NL.openOp, NL.get?_set]
  rw [if_pos hk, if_pos hch, hch]
  simp only [Option.getD_some]
  obtain ⟨h1, h2⟩ := h
  exact KVL_open k _ done m ⟨rfl, h2⟩ hk

theorem KV_close_k (k : Int × Int) (s : PairSt) (i : Nat) (on off : Msg) (done : List (Msg × Msg))
    (hkn : NL.KN s.opens) (hi : s.opens.get? k = some i) (h : KV k s done (some on)) :
    KV k (NL.closeOp s k i off) (done ++ [(on, off)]) Option.none := by
  unfold KV at h ⊢
  simp only [NL.closeOp, NL.get?_set, if_true, Option.getD_some]
  rw [NL.get?_erase_self _ _ hkn]
  rw [hi] at h
  exact KVL_close k _ done on off i h

theorem KV_step_other (src : List Msg) (k : Int × Int) (s : PairSt) (m : Msg) (done : List (Msg × Msg))
    (o : Option Msg) (hg : NL.Good src s) (hm : ¬ Kev k m) (h : KV k s done o) :
    KV k (pairStep notePairTypes true s m) done o := by
  by_cases hty : m.ty = .noteOn
  · have hne : m.nkey ≠ k := fun he => hm ⟨he, Or.inl hty⟩
    rw [NL.pairStep_on s m hty]
    obtain ⟨h1, _, _⟩ := NL.ensure_good src s m.ch hg
    have hE := KV_ensure k s m.ch done o h
    cases hk : (NL.ensureCh s m.ch).opens.get? m.nkey with
    | none => exact KV_open_other k _ m done o hne hE
    | some i =>
      simp only
      obtain ⟨l, on', hl, hli, hon'⟩ := h1.B m.nkey i hk
      exact KV_open_other k _ m done o hne (KV_close_other k m.nkey _ i _ on' l done o hl hli hon' hne hE)
  · by_cases hty' : m.ty = .noteOff
    · have hne : m.nkey ≠ k := fun he => hm ⟨he, Or.inr hty'⟩
      rw [NL.pairStep_off s m hty']
      obtain ⟨h1, _, _⟩ := NL.ensure_good src s m.ch hg
      have hE := KV_ensure k s m.ch done o h
      cases hk : (NL.ensureCh s m.ch).opens.get? m.nkey with
      | none => exact hE
      | some i =>
        simp only
        obtain ⟨l, on', hl, hli, hon'⟩ := h1.B m.nkey i hk
        exact KV_close_other k m.nkey _ i _ on' l done o hl hli hon' hne hE
    · unfold pairStep
      have hc : (!notePairTypes.contains m.ty) = true := by
        revert hty hty'; cases m.ty <;> decide
      rw [if_pos hc]
      exact h

theorem KV_step_on (k : Int × Int) (s : PairSt) (m : Msg) (done : List (Msg × Msg))
    (hk : m.nkey = k) (hty : m.ty = .noteOn) (h : KV k s done Option.none) :
    KV k (pairStep notePairTypes true s m) done (some m) := by
  rw [NL.pairStep_on s m hty]
  have hE := KV_ensure k s m.ch done _ h
  have hnone : (NL.ensureCh s m.ch).opens.get? m.nkey = none := by rw [hk]; exact hE.1
  rw [hnone]
  exact KV_open_k k _ m done hk hE

theorem KV_step_off (src : List Msg) (k : Int × Int) (s : PairSt) (m on : Msg) (done : List (Msg × Msg))
    (hg : NL.Good src s) (hk : m.nkey = k) (hty : m.ty = .noteOff) (h : KV k s done (some on)) :
    KV k (pairStep notePairTypes true s m) (done ++ [(on, m)]) Option.none := by
  rw [NL.pairStep_off s m hty]
  obtain ⟨h1, _, _⟩ := NL.ensure_good src s m.ch hg
  have hE := KV_ensure k s m.ch done _ h
  obtain ⟨l1, l2, _, hio, _⟩ := id hE
  rw [hk, hio]
  exact KV_close_k k _ l1.length on m done h1.kno hio hE

/-- every pairing sits in the list of the channel of its first message -/
def HeadCh (s : PairSt) : Prop :=
  ∀ ch L, s.pairs.get? ch = some L → ∀ p ∈ L, ∃ m rest, p = m :: rest ∧ m.ch = ch

theorem mem_modifyAt {α} (f : α → α) (l : List α) : ∀ i x, x ∈ modifyAt f i l → x ∈ l ∨ ∃ y ∈ l, x = f y := by
  induction l with
  | nil => intro i x h; cases i <;> simp [modifyAt] at h
  | cons y ys ih =>
    intro i x h
    cases i with
    | zero =>
      simp only [modifyAt, List.mem_cons] at h
      rcases h with rfl | h
      · exact Or.inr ⟨y, List.mem_cons_self, rfl⟩
      · exact Or.inl (List.mem_cons_of_mem _ h)
    | succ i =>
      simp only [modifyAt, List.mem_cons] at h
      rcases h with rfl | h
      · exact Or.inl List.mem_cons_self
      · rcases ih i x h with h' | ⟨z, hz, rfl⟩
        · exact Or.inl (List.mem_cons_of_mem _ h')
        · exact Or.inr ⟨z, List.mem_cons_of_mem _ hz, rfl⟩

theorem headCh_ensure (s : PairSt) (ch : Int) (h : HeadCh s) : HeadCh (NL.ensureCh s ch) := by
  unfold NL.ensureCh
  split
  · exact h
  · intro ch' L hL p hp
    simp only [NL.get?_set] at hL
    split at hL
    · simp only [Option.some.injEq] at hL; subst hL; simp at hp
    · exact h ch' L hL p hp

theorem headCh_close (s : PairSt) (k' : Int × Int) (i : Nat) (off : Msg) (h : HeadCh s) :
    HeadCh (NL.closeOp s k' i off) := by
  intro ch' L hL p hp
  simp only [NL.closeOp, NL.get?_set] at hL
  split at hL
  · rename_i he
    simp only [Option.some.injEq] at hL
    subst hL
    cases hg : s.pairs.get? k'.1 with
    | none => simp [hg, modifyAt] at hp
    | some L0 =>
      rw [hg] at hp
      simp only [Option.getD_some] at hp
      rcases mem_modifyAt _ _ _ _ hp with hp | ⟨y, hy, rfl⟩
      · exact h ch' L0 (he ▸ hg) p hp
      · obtain ⟨m, rest, rfl, hm⟩ := h ch' L0 (he ▸ hg) y hy
        exact ⟨m, rest ++ [off], rfl, hm⟩
  · exact h ch' L hL p hp

theorem headCh_open (s : PairSt) (m : Msg) (h : HeadCh s) : HeadCh (NL.openOp s m) := by
  intro ch' L hL p hp
  simp only [NL.openOp, NL.get?_set] at hL
  split at hL
  · rename_i he
    simp only [Option.some.injEq] at hL
    subst hL
    rcases List.mem_append.1 hp with hp | hp
    · cases hg : s.pairs.get? m.ch with
      | none => simp [hg] at hp
      | some L0 =>
        rw [hg] at hp
        exact h ch' L0 (he ▸ hg) p hp
    · simp only [List.mem_singleton] at hp
      subst hp
      exact ⟨m, [], rfl, he⟩
  · exact h ch' L hL p hp

theorem headCh_step (s : PairSt) (m : Msg) (h : HeadCh s) : HeadCh (pairStep notePairTypes true s m) := by
  by_cases hty : m.ty = .noteOn
  · rw [NL.pairStep_on s m hty]
    apply headCh_open
    split
    · exact headCh_close _ _ _ _ (headCh_ensure s m.ch h)
    · exact headCh_ensure s m.ch h
  · by_cases hty' : m.ty = .noteOff
    · rw [NL.pairStep_off s m hty']
      split
      · exact headCh_ensure s m.ch h
      · exact headCh_close _ _ _ _ (headCh_ensure s m.ch h)
    · unfold pairStep
      have hc : (!notePairTypes.contains m.ty) = true := by
        revert hty hty'; cases m.ty <;> decide
      rw [if_pos hc]
      exact h

theorem headCh_fold (l : List Msg) : ∀ s, HeadCh s → HeadCh (l.foldl (pairStep notePairTypes true) s) := by
  induction l with
  | nil => intro s h; exact h
  | cons m ms ih => intro s h; exact ih _ (headCh_step s m h)

/-- **the pairing fold on a list whose `k`-events are nice**: it pairs every note-on of `k` with the note-off
    that follows it -/
theorem fold_kv (k : Int × Int) (src : List Msg) : ∀ (S2 : List Msg) (s : PairSt) (done : List (Msg × Msg)),
    NL.Good src s → (∀ m ∈ S2, m ∈ src) →
    (KV k s done Option.none → ∀ (ps2 : List (Msg × Msg)) (lo : Int), NicePairs k lo ps2 →
      S2.filter (isKN k) = flat ps2 →
      KV k (S2.foldl (pairStep notePairTypes true) s) (done ++ ps2) Option.none) ∧
    (∀ on, KV k s done (some on) → ∀ (off : Msg) (ps2 : List (Msg × Msg)) (lo : Int), off.ty = .noteOff →
      off.nkey = k → NicePairs k lo ps2 → S2.filter (isKN k) = off :: flat ps2 →
      KV k (S2.foldl (pairStep notePairTypes true) s) (done ++ (on, off) :: ps2) Option.none) := by
  intro S2
  induction S2 with
  | nil =>
    intro s done _ _
    constructor
    · intro h ps2 lo _ hf
      cases ps2 with
      | nil => simpa using h
      | cons p rest => simp [flat_cons] at hf
    · intro on _ off ps2 lo _ _ _ hf
      simp at hf
  | cons m S2 ih =>
    intro s done hg hsrc
    have hg' := NL.pairStep_good src s m hg (hsrc m List.mem_cons_self)
    have hsrc' : ∀ x ∈ S2, x ∈ src := fun x hx => hsrc x (List.mem_cons_of_mem _ hx)
    simp only [List.foldl_cons]
    by_cases hkn : isKN k m = true
    · rw [List.filter_cons, if_pos hkn]
      constructor
      · intro h ps2 lo hn hf
        cases ps2 with
        | nil => simp [flat] at hf
        | cons p rest =>
          rw [flat_cons] at hf
          simp only [List.cons.injEq] at hf
          obtain ⟨hm, hrest⟩ := hf
          obtain ⟨h1, h2, h3, h4, _, _, h7⟩ := hn
          subst hm
          have hstep := KV_step_on k s p.1 done h3 h1 h
          exact (ih _ done hg' hsrc').2 p.1 hstep p.2 rest _ h2 h4 h7 hrest
      · intro on h off ps2 lo ho1 ho2 hn hf
        simp only [List.cons.injEq] at hf
        obtain ⟨hm, hrest⟩ := hf
        subst hm
        have hstep := KV_step_off src k s m on done hg ho2 ho1 h
        have := (ih _ _ hg' hsrc').1 hstep ps2 lo hn hrest
        simpa using this
    · rw [List.filter_cons, if_neg hkn]
      have hnk : ¬ Kev k m := fun h => hkn ((isKN_iff k m).2 h)
      constructor
      · intro h ps2 lo hn hf
        exact (ih _ done hg' hsrc').1 (KV_step_other src k s m done _ hg hnk h) ps2 lo hn hf
      · intro on h off ps2 lo ho1 ho2 hn hf
        exact (ih _ done hg' hsrc').2 on (KV_step_other src k s m done _ hg hnk h) off ps2 lo ho1 ho2 hn hf

theorem KV_init (k : Int × Int) : KV k {} [] Option.none := ⟨rfl, rfl⟩

theorem headCh_init : HeadCh {} := by
  intro ch L hL
  cases hL

/-! ### the per-channel quantisation, seen from one key -/

theorem stepOne_cases' (values : List Int) (ps : List Pairing) (i : Nat) (on off : Msg) :
    NL.stepOne values true ps ([on, off], i) = [] ∨
      ∃ x ∈ values, x ≤ off.time - on.time ∧
        NL.stepOne values true ps ([on, off], i) = [on, { off with time := on.time + x }] := by
  simp only [NL.stepOne]
  split
  · left; rfl
  · rename_i hne
    right
    have hne' : validDurations values true on.time off.time (nextOnset ps i on.note) ≠ [] := by
      intro h0; rw [h0] at hne; simp at hne
    obtain ⟨v, hv, hmem, _⟩ := NL.nearest_spec (off.time - on.time) _ hne'
    have hm := (NL.mem_validDurations _ _ _ _ _ _).1 hmem
    refine ⟨v, hm.1, hm.2.2 rfl, ?_⟩
    simp only [hv]
    have : off.time + (v - (off.time - on.time)) = on.time + v := by omega
    rw [this]

theorem chan_kview (values : List Int) (hv : ∀ v ∈ values, 0 < v) (k : Int × Int) (src : List Msg)
    (ps0 : List Pairing) : ∀ (Z : List (Pairing × Nat)) (ps : List (Msg × Msg)) (lo : Int),
    (∀ z ∈ Z, NL.GoodPair src z.1) → NicePairs k lo ps → (Z.map (·.1)).filter (isK k) = ps.map pairOf →
    ∃ ps', Shrunk ps ps' ∧ ((Z.map (NL.stepOne values true ps0)).flatten).filter (isKN k) = flat ps' := by
  intro Z
  induction Z with
  | nil =>
    intro ps lo _ _ hf
    cases ps with
    | nil => exact ⟨[], Shrunk.nil, rfl⟩
    | cons p rest => simp at hf
  | cons z Z ih =>
    intro ps lo hgood hn hf
    obtain ⟨p, i⟩ := z
    obtain ⟨on, off, hp, hon, hoff, hkeys, _⟩ := hgood (p, i) List.mem_cons_self
    simp only at hp
    subst hp
    have hgood' : ∀ z ∈ Z, NL.GoodPair src z.1 := fun z hz => hgood z (List.mem_cons_of_mem _ hz)
    simp only [List.map_cons, List.flatten_cons, List.filter_append] at hf ⊢
    by_cases hk : on.nkey = k
    · have hisk : isK k [on, off] = true := by simp [isK, hk]
      rw [List.filter_cons, if_pos hisk] at hf
      cases ps with
      | nil => simp at hf
      | cons q rest =>
        simp only [List.map_cons, List.cons.injEq] at hf
        obtain ⟨hq, hrest⟩ := hf
        obtain ⟨q1, q2⟩ := q
        simp only [pairOf, List.cons.injEq, and_true] at hq
        obtain ⟨rfl, rfl⟩ := hq
        obtain ⟨_, _, _, _, n5, n6, n7⟩ := hn
        obtain ⟨ps', hs', hfl'⟩ := ih rest _ hgood' n7 hrest
        rcases stepOne_cases' values ps0 i on off with h0 | ⟨x, hx, hxle, hs⟩
        · rw [h0]
          exact ⟨ps', Shrunk.drop _ _ _ hs', by simpa using hfl'⟩
        · rw [hs]
          have hx0 := hv x hx
          refine ⟨(on, { off with time := on.time + x }) :: ps',
            Shrunk.keep on off _ _ _ rfl rfl (by simp only; omega) (by simp only; omega) hs', ?_⟩
          have h1 : isKN k on = true := (isKN_iff k on).2 ⟨hk, Or.inl hon⟩
          have h2 : isKN k { off with time := on.time + x } = true :=
            (isKN_iff k _).2 ⟨by rw [← hk, ← hkeys]; rfl, Or.inr hoff⟩
          rw [List.filter_cons, if_pos h1, List.filter_cons, if_pos h2, List.filter_nil, hfl', flat_cons]
          rfl
    · have hisk : ¬ isK k [on, off] = true := by simp [isK, hk]
      rw [List.filter_cons, if_neg hisk] at hf
      obtain ⟨ps', hs', hfl'⟩ := ih ps lo hgood' hn hf
      refine ⟨ps', hs', ?_⟩
      rcases stepOne_cases' values ps0 i on off with h0 | ⟨x, hx, hxle, hs⟩
      · rw [h0]; simpa using hfl'
      · rw [hs]
        have h1 : ¬ isKN k on = true := fun h => hk ((isKN_iff k on).1 h).1
        have h2 : ¬ isKN k { off with time := on.time + x } = true := by
          intro h
          have := ((isKN_iff k _).1 h).1
          apply hk
          rw [← this, ← hkeys]; rfl
        rw [List.filter_cons, if_neg h1, List.filter_cons, if_neg h2, List.filter_nil, List.nil_append]
        exact hfl'

theorem flatMap_assoc {κ ν β : Type} [DecidableEq κ] (d : Assoc κ ν) (F : κ × ν → List β) (q : κ)
    (hkn : NL.KN d) (hF : ∀ c ∈ d, c.1 ≠ q → F c = []) :
    d.flatMap F = match d.get? q with | some v => F (q, v) | Option.none => [] := by
  induction d with
  | nil => rfl
  | cons a d ih =>
    obtain ⟨k', w⟩ := a
    unfold NL.KN at hkn
    rw [List.pairwise_cons] at hkn
    simp only [List.flatMap_cons, Assoc.get?]
    by_cases hk : k' = q
    · subst hk
      rw [if_pos rfl]
      have : d.flatMap F = [] := by
        rw [List.flatMap_eq_nil_iff]
        intro c hc
        exact hF c (List.mem_cons_of_mem _ hc) (fun e => hkn.1 c hc e.symm)
      rw [this, List.append_nil]
    · rw [if_neg hk, hF (k', w) List.mem_cons_self hk, List.nil_append]
      exact ih hkn.2 (fun c hc => hF c (List.mem_cons_of_mem _ hc))

/-! ### the whole note-length quantisation, seen from one key -/

theorem isK_closeUnclosed (k : Int × Int) (stdLen : Int) (p : Pairing) :
    isK k (closeUnclosed stdLen true p) = isK k p := by
  unfold closeUnclosed
  split
  · split <;> rfl
  · rfl

theorem closeUnclosed_pairOf (stdLen : Int) (q : Msg × Msg) : closeUnclosed stdLen true (pairOf q) = pairOf q := rfl

/-- messages of a channel's output belong to the channel -/
theorem chanOut_ch (values : List Int) (stdLen : Int) (src : List Msg) (ch : Int) (L : List Pairing)
    (hgood : ∀ p ∈ L.map (closeUnclosed stdLen true), NL.GoodPair src p)
    (hhead : ∀ p ∈ L, ∃ m rest, p = m :: rest ∧ m.ch = ch) :
    ∀ m ∈ NL.chanOut values true (ch, L.map (closeUnclosed stdLen true)), m.ch = ch := by
  intro m hm
  simp only [NL.chanOut, List.mem_flatten, List.mem_map] at hm
  obtain ⟨q, ⟨pi, hpi, rfl⟩, hmq⟩ := hm
  obtain ⟨p, i⟩ := pi
  have hp : p ∈ L.map (closeUnclosed stdLen true) := by
    have := List.mem_zipIdx hpi
    rw [this.2.2]; exact List.getElem_mem _
  obtain ⟨on, off, rfl, _, _, hkeys, _⟩ := hgood p hp
  obtain ⟨p0, hp0, hcu⟩ := List.mem_map.1 hp
  obtain ⟨m0, rest, rfl, hm0⟩ := hhead p0 hp0
  have honm : on = m0 := by
    unfold closeUnclosed at hcu
    split at hcu
    · rename_i m1 heq
      simp only [List.cons.injEq] at heq
      split at hcu
      · simp only [List.cons.injEq] at hcu; rw [← hcu.1, heq.1]
      · simp only [List.cons.injEq] at hcu; exact hcu.1.symm
    · simp only [List.cons.injEq] at hcu; exact hcu.1.symm
  have hoffch : off.ch = on.ch := congrArg Prod.fst hkeys
  rcases stepOne_cases' values (L.map (closeUnclosed stdLen true)) i on off with h0 | ⟨x, _, _, hs⟩
  · rw [h0] at hmq; simp at hmq
  · rw [hs] at hmq
    simp only [List.mem_cons, List.not_mem_nil, or_false] at hmq
    rcases hmq with rfl | rfl
    · rw [honm]; exact hm0
    · show off.ch = ch
      rw [hoffch, honm]; exact hm0

/-- **what note-length quantisation (shorten only) does to the `k`-events** of a list whose sorted `k`-events are
    nice: some notes are dropped, the others end earlier -/
theorem qnl_kview (values : List Int) (stdLen : Int) (a : List Msg) (k : Int × Int) (ps : List (Msg × Msg))
    (lo : Int) (hv : ∀ v ∈ values, 0 < v) (hn : NicePairs k lo ps)
    (hk : (sortAbs a).filter (isKN k) = flat ps) (out : List Msg)
    (h : quantiseNoteLengths values stdLen true a = .ok out) :
    ∃ ps', Shrunk ps ps' ∧ out.filter (isKN k) = flat ps' := by
  rw [NL.quantise_eq] at h
  have hout := (Except.ok.inj h).symm
  clear h
  -- the fold
  have hG : NL.Good (sortAbs a) ((sortAbs a).foldl (pairStep notePairTypes true) {}) :=
    NL.fold_good _ _ {} (NL.good_init _) (fun _ h => h)
  have hH := headCh_fold (sortAbs a) {} headCh_init
  have hKV := (fold_kv k (sortAbs a) (sortAbs a) {} [] (NL.good_init _) (fun _ h => h)).1 (KV_init k) ps lo hn hk
  rw [List.nil_append] at hKV
  generalize hsf : (sortAbs a).foldl (pairStep notePairTypes true) {} = sf at hG hH hKV
  -- the note part
  have hN : ∃ ps', Shrunk ps ps' ∧
      ((pairingsSorted notePairTypes stdLen true (sortAbs a)).flatMap (NL.chanOut values true)).filter (isKN k)
        = flat ps' := by
    have hgoodAll := NL.pairings_good stdLen (sortAbs a)
    unfold pairingsSorted at hgoodAll ⊢
    rw [hsf] at hgoodAll ⊢
    rw [List.filter_flatMap, List.flatMap_map]
    have hmemc : ∀ kv ∈ sf.pairs, ∀ p ∈ kv.2.map (closeUnclosed stdLen true), NL.GoodPair (sortAbs a) p := by
      intro kv hkv p hp
      exact hgoodAll (kv.1, kv.2.map (closeUnclosed stdLen true)) (List.mem_map.2 ⟨kv, hkv, rfl⟩) p hp
    rw [flatMap_assoc sf.pairs _ k.1 hG.knp]
    · cases hget : sf.pairs.get? k.1 with
      | none =>
        unfold KV at hKV
        rw [hget] at hKV
        have : ps.map pairOf = [] := by simpa using hKV.2.symm
        have hps : ps = [] := by simpa using this
        subst hps
        exact ⟨[], Shrunk.nil, rfl⟩
      | some L =>
        unfold KV at hKV
        rw [hget] at hKV
        simp only [Option.getD_some] at hKV
        have hmem : (k.1, L) ∈ sf.pairs := Assoc.mem_of_get? _ _ _ hget
        simp only [NL.chanOut]
        apply chan_kview values hv k (sortAbs a) _ _ ps lo
        · intro z hz
          apply hmemc (k.1, L) hmem
          obtain ⟨p, i⟩ := z
          have := List.mem_zipIdx hz
          simp only
          rw [this.2.2]; exact List.getElem_mem _
        · exact hn
        · rw [List.zipIdx_map_fst, List.filter_map]
          have : (isK k ∘ closeUnclosed stdLen true) = isK k := by
            funext p; exact isK_closeUnclosed k stdLen p
          rw [this, hKV.2, List.map_map]
          apply List.map_congr_left
          intro q _
          rfl
    · intro kv hkv hne
      rw [List.filter_eq_nil_iff]
      intro m hm hkn
      have hget := NL.get?_of_mem _ kv hG.knp hkv
      have hch := chanOut_ch values stdLen (sortAbs a) kv.1 kv.2 (hmemc kv hkv) (hH kv.1 kv.2 hget) m hm
      have := ((isKN_iff k m).1 hkn).1
      apply hne
      rw [← hch, ← this]; rfl
  obtain ⟨ps', hs', hfl'⟩ := hN
  refine ⟨ps', hs', ?_⟩
  rw [hout, filter_sortAbs, List.filter_append, hfl']
  have hO : ((sortAbs a).filter (fun m => m.ty != .noteOn && m.ty != .noteOff)).filter (isKN k) = [] := by
    rw [List.filter_eq_nil_iff]
    intro m hm hkn
    have h1 := (List.mem_filter.1 hm).2
    rcases ((isKN_iff k m).1 hkn).2 with e | e <;> simp [e] at h1
  rw [hO, List.append_nil]
  exact sortAbs_of_ksorted _ (nice_ksorted k ps' lo (nice_shrunk k hs' lo hn))

/-! ### one piece through `requantPiece … true` -/

theorem filter_insort (p : Msg → Bool) (l : List Msg) (m : Msg) (hm : p m = false) :
    (insort l m).filter p = l.filter p := by
  simp only [insort, List.filter_append, List.filter_cons, hm, Bool.false_eq_true, if_false]
  rw [← List.filter_append, List.take_append_drop]

theorem toAbs_mem_facts (r : List Msg) (hw : NonNegWaits r) : ∀ e ∈ toAbs r, 0 ≤ e.time ∧ e.ty ≠ .wait := by
  have hb : ∀ e ∈ sortAbs (eventsRel r), 0 ≤ e.time ∧ e.ty ≠ .wait := by
    intro e he
    rw [mem_sortAbs] at he
    exact ⟨(eventsRelGo_bounds r 0 hw e he).1, (eventsRelGo_ty r 0 e he).1⟩
  intro e he
  rw [toAbs_eq] at he
  split at he
  · exact hb e he
  · rcases List.mem_cons.1 ((insort_perm _ _).mem_iff.1 he) with rfl | he
    · exact ⟨by simpa [Msg.mkInternal] using totalWait_nonneg r hw, by simp [Msg.mkInternal]⟩
    · exact hb e he

theorem toAbs_kview (r : List Msg) (k : Int × Int) :
    (toAbs r).filter (isKN k) = (sortAbs (eventsRel r)).filter (isKN k) := by
  rw [toAbs_eq]
  split
  · rfl
  · exact filter_insort _ _ _ (by simp [isKN, Msg.mkInternal])

theorem requant_sound (values : List Int) (ppqn : Int) (first piece : List Msg) (hv : ∀ v ∈ values, 0 < v)
    (hw : NonNegWaits first) (hwf : WF first) (hz : NoZeroNotes first)
    (h : requantPiece values ppqn true first = .ok piece) :
    NonNegWaits piece ∧ C07.Paired piece ∧
      ∀ k τ, SoundingAt (eventsRel piece) k τ → SoundingAt (eventsRel first) k τ := by
  obtain ⟨out, hq⟩ := C06.total values ppqn true (toAbs first)
  simp only [requantPiece, if_true, hq, bind, Except.bind, Except.ok.injEq] at h
  subst h
  -- `out` is a legal absolute view
  have hA := toAbs_mem_facts first hw
  have hmem : ∀ m ∈ out, 0 ≤ m.time ∧ m.ty ≠ .wait := by
    intro m hm
    by_cases hon : m.ty = .noteOn
    · exact ⟨(hA m (C06.onsets_kept values ppqn true _ out hq m hm hon)).1, by rw [hon]; simp⟩
    · by_cases hoff : m.ty = .noteOff
      · obtain ⟨on, hon', hty, _, hd⟩ := C06.durations values ppqn true _ out hq m hm hoff
        have h1 := (hA on (C06.onsets_kept values ppqn true _ out hq on hon' hty)).1
        have h2 := hv _ hd
        exact ⟨by omega, by rw [hoff]; simp⟩
      · have : m ∈ nonNotes out := by
          simp only [nonNotes, List.mem_filter, Bool.and_eq_true, bne_iff_ne, ne_eq]
          exact ⟨hm, hon, hoff⟩
        have := (C06.others_same values ppqn true _ out hq).mem_iff.1 this
        exact hA m (List.mem_filter.1 this).1
  have hsorted : out.Pairwise (fun a b => a.time ≤ b.time) :=
    (timeSorted_iff_pairwise out).1 (C06.sorted_out values ppqn true _ out hq)
  have hev : eventsRel (toRel out) = eventsAbs out :=
    eventsRelGo_toRelGo out 0 hsorted (fun m hm => (hmem m hm).1) (fun m hm => (hmem m hm).2)
  have hkv : ∀ k, (eventsAbs out).filter (isKN k) = out.filter (isKN k) := by
    intro k
    unfold eventsAbs
    rw [List.filter_filter]
    apply List.filter_congr
    intro m _
    by_cases hk : isKN k m = true
    · rcases ((isKN_iff k m).1 hk).2 with e | e <;> simp [hk, e]
    · simp [hk]
  -- per key
  have hkey : ∀ k, ∃ ps ps', NicePairs k 0 ps ∧ (eventsRel first).filter (isKN k) = flat ps ∧ Shrunk ps ps' ∧
      (eventsRel (toRel out)).filter (isKN k) = flat ps' := by
    intro k
    obtain ⟨ps, hn, hf⟩ := nice_of_first k first hw hwf hz
    have hsorted2 : (sortAbs (toAbs first)).filter (isKN k) = flat ps := by
      rw [filter_sortAbs, toAbs_kview, filter_sortAbs, hf,
        sortAbs_of_ksorted _ (nice_ksorted k ps 0 hn), sortAbs_of_ksorted _ (nice_ksorted k ps 0 hn)]
    obtain ⟨ps', hs', hfl'⟩ := qnl_kview values ppqn (toAbs first) k ps 0 hv hn hsorted2 out hq
    exact ⟨ps, ps', hn, hf, hs', by rw [hev, hkv, hfl']⟩
  refine ⟨fun m hm => (toRelGo_ok out 0 (fun m hm => (hmem m hm).2) m hm).1, ?_, ?_⟩
  · intro k
    obtain ⟨ps, ps', hn, _, hs', hfl'⟩ := hkey k
    rw [← balancedFrom_events k (toRel out) 0 0, ← balancedFrom_filter]
    show C07.balancedFrom k 0 ((eventsRel (toRel out)).filter (isKN k))
    rw [hfl']
    exact balanced_nice k ps' 0 (nice_shrunk k hs' 0 hn)
  · intro k τ hs
    obtain ⟨ps, ps', hn, hf, hs', hfl'⟩ := hkey k
    rw [sounding_filter, hfl', sounding_nice k τ ps' 0 (nice_shrunk k hs' 0 hn)] at hs
    obtain ⟨p', hp', h1, h2⟩ := hs
    obtain ⟨p, hp, e1, e2⟩ := shrunk_mem hs' p' hp'
    rw [sounding_filter, hf, sounding_nice k τ ps 0 hn]
    exact ⟨p, hp, by rw [e1]; exact h1, by omega⟩

/-- a bar sounds like the piece it was built from, for paired pieces -/
theorem bar_snd' (ppqn : Int) (rel : List Msg) (n d key : Int) (b : Bar) (h : mkBar ppqn rel n d key = .ok b)
    (hw : NonNegWaits rel) (hp : C07.Paired rel) (k : Int × Int) (t a : Int) :
    Snd k t a b.seq ↔ Snd k t a rel := by
  obtain ⟨_, _, _, hb⟩ := mkBar_ok h
  subst hb
  rw [snd_shift, snd_shift]
  show SoundingAt (eventsRel (barSeq ppqn rel n d)) k (t - a) ↔ _
  rw [barSeq_events, sounding_bar _ _ rfl]
  exact C07.sound_eq rel hw hp k (t - a)

end SCoda.SB
