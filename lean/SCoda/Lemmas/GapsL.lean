/-
  Helper lemmas for `Props/Gaps.lean` (audit items A12, A15, A17 of docs/audit_report_round1.md):
  * C14: the generated key function (`genTk`, built from `Gen.transposeKey`), transposing there and back,
    the closed form of `Sequence.transpose` from any readable wrapper state, membership through the
    two conversions, the closed form of `Bar.transpose` (Model/BarOps.lean);
  * C10: exact quotient or floor;
  * C07: the timed (tick, key) version of `normalise_ksVals`;
  * C18: the wrapper invariant on concrete `Seq` states and what both views show after a view-local mutator;
  * C19: the detokeniser never removes a placed message, the generated circle-of-fifths function,
    threaded `tokenise` calls.
-/
import SCoda.Model.BarOps
import SCoda.Props.Notes
import SCoda.Props.C14
import SCoda.Props.C20
import SCoda.Props.C06
import SCoda.Props.C07
import SCoda.Props.C10
import SCoda.Props.C11b
import SCoda.Props.C04b
import SCoda.Props.C19b
import SCoda.Props.C02
namespace SCoda.GapsL
open SCoda SCoda.C01 SCoda.C19

/-! ## C14: the key function of the generated code -/

theorem genTk_eq_tkGen (k by_ : Int) : genTk k by_ = C14.tkGen by_ k := rfl

/-- on a valid key `genTk` *is* `Gen.transposeKey` -/
theorem genTk_valid (k by_ : Int) (hk : C20.validKey k) :
    ∃ k', Gen.transposeKey k by_ = some k' ∧ genTk k by_ = k' ∧ C20.validKey k'
      ∧ C20.tonicD k' = (C20.tonicD k + by_) % 12 := by
  obtain ⟨k', h1, hv, ht⟩ := C20.tonic_of_transpose k by_ hk
  refine ⟨k', h1, ?_, hv, ht⟩
  have hv' : 0 ≤ k' ∧ k' < (C20.nKeys : Int) := hv
  have hk' : 0 ≤ k ∧ k < (C20.nKeys : Int) := hk
  have e1 : (k == pyNone) = false := by
    simp only [pyNone, beq_eq_false_iff_ne, ne_eq]; omega
  have e2 : (k' == -1000000) = false := by
    simp only [beq_eq_false_iff_ne, ne_eq]; omega
  simp only [genTk, e1, h1, e2, Bool.false_eq_true, if_false]

theorem validKey_ne_none (k : Int) (hk : C20.validKey k) : k ≠ pyNone := by
  have hk' : 0 ≤ k ∧ k < (C20.nKeys : Int) := hk
  simp only [pyNone]; omega

/-- there and back: a valid key returns to a valid key with the same tonic -/
theorem genTk_back (k by_ : Int) (hk : C20.validKey k) :
    C20.validKey (genTk (genTk k by_) (-by_)) ∧
      C20.tonicD (genTk (genTk k by_) (-by_)) = C20.tonicD k := by
  obtain ⟨k1, _, e1, v1, t1⟩ := genTk_valid k by_ hk
  rw [e1]
  obtain ⟨k2, _, e2, v2, t2⟩ := genTk_valid k1 (-by_) v1
  rw [e2]
  refine ⟨v2, ?_⟩
  obtain ⟨t, ht, h0, h12, _⟩ := C20.scales_major k hk
  have : C20.tonicD k = t := by simp [C20.tonicD, ht]
  rw [t2, t1, this]; omega


/-! ## C14: there and back -/

/-- what a message looks like after transposing by `by_` and back by `-by_` when nothing wraps:
    only the key of a key signature may be re-spelled -/
def ksBack (by_ : Int) (m : Msg) : Msg :=
  if m.ty == .keySignature then { m with key := genTk (genTk m.key by_) (-by_) } else m

theorem ksBack_ty (by_ : Int) (m : Msg) : (ksBack by_ m).ty = m.ty := by
  unfold ksBack; split <;> rfl
theorem ksBack_time (by_ : Int) (m : Msg) : (ksBack by_ m).time = m.time := by
  unfold ksBack; split <;> rfl
theorem ksBack_note (by_ : Int) (m : Msg) (h : m.ty ≠ .keySignature) : ksBack by_ m = m := by
  unfold ksBack; simp [h]
theorem ksBack_stamp (by_ : Int) (m : Msg) (c : Int) :
    ksBack by_ { m with time := c } = { ksBack by_ m with time := c } := by
  unfold ksBack; split <;> rfl

theorem transposeMsg_back (lo hi : Int) (by_ : Int) (m : Msg)
    (hr : C14.isNoteMsg m = true → lo ≤ m.note ∧ m.note ≤ hi) :
    transposeMsg lo hi (fun k => genTk k (-by_)) (-by_)
      (if C14.isNoteMsg m then { m with note := m.note + by_ }
       else if m.ty == .keySignature then { m with key := genTk m.key by_ } else m) = (ksBack by_ m, false) := by
  cases hn : C14.isNoteMsg m
  · simp only [Bool.false_eq_true, if_false]
    by_cases hks : m.ty = .keySignature
    · have hb : (m.ty == MType.keySignature) = true := by simp [hks]
      simp only [hb, if_true]
      rw [C14.transposeMsg_nonnote _ _ _ _ _ (by simp [C14.isNoteMsg, hks])]
      simp only [hb, if_true, ksBack]
    · have hb : (m.ty == MType.keySignature) = false := by simpa using hks
      simp only [hb, Bool.false_eq_true, if_false]
      rw [C14.transposeMsg_nonnote _ _ _ _ _ hn]
      simp only [hb, Bool.false_eq_true, if_false, ksBack]
  · simp only [if_true]
    rw [C14.transposeMsg_note _ _ _ _ _ (by simpa [C14.isNoteMsg] using hn)]
    have e : m.note + by_ + -by_ = m.note := by omega
    have hks : m.ty ≠ .keySignature := by
      intro h; simp [C14.isNoteMsg, h] at hn
    simp only [e, C14.wrap_id lo hi m.note (hr hn), ksBack_note by_ m hks]

theorem inverse_exact (lo hi : Int) (by_ : Int) (r : List Msg) (h : lo + 11 ≤ hi)
    (hf : (transposeRel lo hi (fun k => genTk k by_) by_ r).2 = false)
    (hr : ∀ m ∈ r, C14.isNoteMsg m = true → lo ≤ m.note ∧ m.note ≤ hi) :
    transposeRel lo hi (fun k => genTk k (-by_)) (-by_) (transposeRel lo hi (fun k => genTk k by_) by_ r).1
      = (r.map (ksBack by_), false) := by
  rw [C14.exact lo hi _ by_ r h hf]
  simp only [transposeRel, List.map_map, List.any_map]
  refine Prod.ext ?_ ?_
  · show List.map _ r = r.map (ksBack by_)
    apply List.map_congr_left
    intro m hm
    simp only [Function.comp, transposeMsg_back lo hi by_ m (hr m hm)]
  · show List.any r _ = false
    rw [List.any_eq_false]
    intro m hm
    simp only [Function.comp, transposeMsg_back lo hi by_ m (hr m hm)]
    simp

theorem eventsRelGo_ksBack (by_ : Int) (cur : Int) (r : List Msg) :
    eventsRelGo cur (r.map (ksBack by_)) = (eventsRelGo cur r).map (ksBack by_) := by
  induction r generalizing cur with
  | nil => rfl
  | cons m ms ih =>
    simp only [List.map_cons, eventsRelGo, ksBack_ty, ksBack_time]
    split
    · exact ih _
    · simp only [List.map_cons, ih, ksBack_stamp, ksBack_ty]

theorem notesGo_ksBack (by_ : Int) (evs opens : List Msg) :
    notesGo (evs.map (ksBack by_)) opens = notesGo evs opens := by
  induction evs generalizing opens with
  | nil => rfl
  | cons m ms ih =>
    simp only [List.map_cons, notesGo, ksBack_ty]
    by_cases hks : m.ty = .keySignature
    · simp only [hks]
      exact ih _
    · rw [ksBack_note by_ m hks]
      split
      · exact ih _
      · split
        · split <;> simp only [ih]
        · exact ih _

theorem totalWait_ksBack (by_ : Int) (r : List Msg) : totalWait (r.map (ksBack by_)) = totalWait r :=
  C14.totalWait_map _ (ksBack_ty by_) (ksBack_time by_) r


/-! ## C14 at wrapper level: closed form of `Sequence.transpose` from any readable state -/

theorem transposeSeq_eq (e : Env) (s s0 : Seq) (r : List Msg) (by_ : Int)
    (hread : s.readRel = .ok (s0, r)) :
    Seq.transposeSeq e s by_ =
      if (transposeRel e.noteLo e.noteHi (fun k => e.tk k by_) by_ r).2 = true then
        (match quantiseNoteLengths e.defValues e.ppqn false
            (toAbs (normalise (transposeRel e.noteLo e.noteHi (fun k => e.tk k by_) by_ r).1)) with
          | .ok v => .ok ({ abs := v, rel := normalise (transposeRel e.noteLo e.noteHi (fun k => e.tk k by_) by_ r).1,
                            absStale := false, relStale := true }, true)
          | .error err => .error err)
      else .ok ({ abs := s0.abs, rel := (transposeRel e.noteLo e.noteHi (fun k => e.tk k by_) by_ r).1,
                  absStale := true, relStale := false }, false) := by
  have hs0 : s0.relStale = false ∧ s0.rel = r := by
    obtain ⟨a, rl, fa, fr⟩ := s
    cases fa <;> cases fr <;> simp [Seq.readRel] at hread <;> obtain ⟨rfl, rfl⟩ := hread <;> exact ⟨rfl, rfl⟩
  obtain ⟨a0, r0, fa0, fr0⟩ := s0
  obtain ⟨rfl, rfl⟩ := hs0
  unfold Seq.transposeSeq
  simp only [hread, bind, Except.bind]
  by_cases hc : (transposeRel e.noteLo e.noteHi (fun k => e.tk k by_) by_ r0).2 = true
  · simp only [hc, if_true]
    simp only [Seq.normaliseSeq, Seq.onRel, Seq.readRel, Seq.qnlSeq, Seq.onAbs, Seq.readAbs,
      bind, Except.bind, Bool.false_eq_true, if_false, if_true, Option.getD_none]
    cases quantiseNoteLengths e.defValues e.ppqn false
        (toAbs (normalise (transposeRel e.noteLo e.noteHi (fun k => e.tk k by_) by_ r0).fst)) <;> rfl
  · simp [hc]

/-! membership through the two conversions -/

theorem mem_toAbs_src (r : List Msg) (m : Msg) (hm : m ∈ toAbs r) (hty : m.ty ≠ .internal) :
    ∃ m0 ∈ r, m0.ty = m.ty ∧ m = { m0 with time := m.time } := by
  have hev : m ∈ eventsRel r := by
    rw [toAbs_eq] at hm
    split at hm
    · exact (mem_sortAbs _ m).1 hm
    · rcases List.mem_cons.1 ((insort_perm _ _).mem_iff.1 hm) with rfl | hm
      · exact absurd rfl hty
      · exact (mem_sortAbs _ m).1 hm
  obtain ⟨m0, h0, h1⟩ := Notes.eventsRelGo_src r 0 m hev
  refine ⟨m0, h0, ?_, h1⟩
  rw [h1]

theorem mem_toRelGo_src (a : List Msg) : ∀ (cur : Int) (m : Msg), m ∈ toRelGo cur a → m.ty ≠ .wait →
    ∃ m1 ∈ a, m1.ty = m.ty ∧ m = { m1 with time := pyNone } := by
  induction a with
  | nil => intro cur m hm; simp [toRelGo] at hm
  | cons x xs ih =>
    intro cur m hm hw
    simp only [toRelGo, List.mem_append] at hm
    rcases hm with (hm | hm) | hm
    · split at hm
      · simp only [List.mem_singleton] at hm
        subst hm
        exact absurd rfl hw
      · cases hm
    · split at hm
      · simp only [List.mem_singleton] at hm
        subst hm
        exact ⟨x, by simp, rfl, rfl⟩
      · cases hm
    · obtain ⟨m1, h1, h2⟩ := ih _ m hm hw
      exact ⟨m1, List.mem_cons_of_mem _ h1, h2⟩

theorem mem_toRel_src (a : List Msg) (m : Msg) (hm : m ∈ toRel a) (hw : m.ty ≠ .wait) :
    ∃ m1 ∈ a, m1.ty = m.ty ∧ m = { m1 with time := pyNone } := mem_toRelGo_src a 0 m hm hw

/-- a non-note message of a note-length quantised list is a message of the input -/
theorem mem_qnl_nonNote (values : List Int) (stdLen : Int) (dne : Bool) (a out : List Msg)
    (h : quantiseNoteLengths values stdLen dne a = .ok out) (m : Msg) (hm : m ∈ out)
    (h1 : m.ty ≠ .noteOn) (h2 : m.ty ≠ .noteOff) : m ∈ a := by
  have hp := C06.others_same values stdLen dne a out h
  have : m ∈ nonNotes out := by
    simp only [nonNotes, List.mem_filter, hm, true_and, Bool.and_eq_true, bne_iff_ne, ne_eq]
    exact ⟨h1, h2⟩
  have := hp.mem_iff.1 this
  exact (List.mem_filter.1 this).1

/-- a key-signature message is the image of a key signature of `r` under the generated key function -/
def KeyImage (by_ : Int) (r : List Msg) (m' : Msg) : Prop :=
  ∃ m ∈ r, m.ty = .keySignature ∧ m'.ch = m.ch ∧ Gen.transposeKey m.key by_ = some m'.key
    ∧ C20.validKey m'.key ∧ C20.tonicD m'.key = (C20.tonicD m.key + by_) % 12

theorem keyImage_stamp (by_ : Int) (r : List Msg) (m : Msg) (t : Int) (h : KeyImage by_ r m) :
    KeyImage by_ r { m with time := t } := h

theorem transposeRel_keys (lo hi : Int) (by_ : Int) (r : List Msg)
    (hk : ∀ m ∈ r, m.ty = .keySignature → C20.validKey m.key) :
    ∀ m' ∈ (transposeRel lo hi (fun k => genTk k by_) by_ r).1, m'.ty = .keySignature → KeyImage by_ r m' := by
  intro m' hm' hty
  simp only [transposeRel, List.mem_map] at hm'
  obtain ⟨m, hm, rfl⟩ := hm'
  have hty0 : m.ty = .keySignature := by rw [← C14.transposeMsg_ty lo hi (fun k => genTk k by_) by_ m]; exact hty
  have := (C14.image_pointwise lo hi (fun k => genTk k by_) by_ m).2.1 hty0
  rw [this]
  obtain ⟨k', e1, e2, e3, e4⟩ := genTk_valid m.key by_ (hk m hm hty0)
  exact ⟨m, hm, hty0, rfl, by simp only [e2]; exact e1, by simp only [e2]; exact e3, by simp only [e2]; exact e4⟩

/-! ## small list helpers -/

/-- position-wise relation between two lists (which then have equal length) -/
def Pointwise {α β} (R : α → β → Prop) : List α → List β → Prop
  | [], [] => True
  | a :: as, b :: bs => R a b ∧ Pointwise R as bs
  | _, _ => False

theorem pointwise_map_right {α β} (R : α → β → Prop) (f : α → β) (l : List α) (h : ∀ x ∈ l, R x (f x)) :
    Pointwise R l (l.map f) := by
  induction l with
  | nil => trivial
  | cons x xs ih =>
    exact ⟨h x (by simp), ih (fun y hy => h y (List.mem_cons_of_mem _ hy))⟩

theorem filter_map_comm {α} (p : α → Bool) (f : α → α) (l : List α) (h : ∀ x ∈ l, p (f x) = p x) :
    (l.map f).filter p = (l.filter p).map f := by
  induction l with
  | nil => rfl
  | cons x xs ih =>
    have ih' := ih (fun y hy => h y (List.mem_cons_of_mem _ hy))
    simp only [List.map_cons, List.filter_cons, h x (by simp)]
    split <;> simp [ih']

/-- closed form of `Bar.transpose` -/
theorem barTranspose_eq (e : Env) (b : Bar) (by_ : Int) :
    Bar.transpose e b by_ =
      if (transposeRel e.noteLo e.noteHi (fun k => e.tk k by_) by_ b.seq).2 = true then
        (match quantiseNoteLengths e.defValues e.ppqn false
            (toAbs (normalise (transposeRel e.noteLo e.noteHi (fun k => e.tk k by_) by_ b.seq).1)) with
          | .ok v => .ok ({ b with seq := toRel v,
                                   key := if b.key == pyNone then pyNone else e.tk b.key by_ }, true)
          | .error err => .error err)
      else .ok ({ b with seq := (transposeRel e.noteLo e.noteHi (fun k => e.tk k by_) by_ b.seq).1,
                         key := if b.key == pyNone then pyNone else e.tk b.key by_ }, false) := by
  unfold Bar.transpose
  simp only [transposeSeq_eq e (Seq.ofRel b.seq) (Seq.ofRel b.seq) b.seq by_ rfl]
  by_cases hc : (transposeRel e.noteLo e.noteHi (fun k => e.tk k by_) by_ b.seq).2 = true
  · simp only [hc, if_true]
    cases quantiseNoteLengths e.defValues e.ppqn false
        (toAbs (normalise (transposeRel e.noteLo e.noteHi (fun k => e.tk k by_) by_ b.seq).1)) <;> rfl
  · simp only [hc, Bool.false_eq_true, if_false]
    rfl

/-- floor division, spelled out: for a positive divisor the quotient is exact iff the divisor divides -/
theorem ediv_exact_or_floor (N d : Int) (hd : 0 < d) :
    (d ∣ N → N / d * d = N) ∧ (¬ d ∣ N → N / d * d < N ∧ N < (N / d + 1) * d) := by
  have h1 := Int.emod_add_mul_ediv N d
  have h2 := Int.emod_nonneg N (Int.ne_of_gt hd)
  have h3 := Int.emod_lt_of_pos N hd
  rw [Int.add_mul, Int.one_mul, Int.mul_comm (N / d) d]
  constructor
  · intro hdv
    have := Int.emod_eq_zero_of_dvd hdv
    omega
  · intro hdv
    have : N % d ≠ 0 := fun h => hdv (Int.dvd_of_emod_eq_zero h)
    omega

/-! ## C07: timed key signatures through `normalise` -/

/-- (tick, key) of the key-signature events of a timed event list, in order -/
def ksT (evs : List Msg) : List (Int × Int) :=
  (evs.filter (·.ty == .keySignature)).map (fun m => (m.time, m.key))

/-- drop every entry whose key repeats the key in force `p`, keeping the first of each run with its tick -/
def dedupT : Int → List (Int × Int) → List (Int × Int)
  | _, [] => []
  | p, x :: xs => if p = x.2 then dedupT p xs else x :: dedupT x.2 xs

theorem ksT_append (a b : List Msg) : ksT (a ++ b) = ksT a ++ ksT b := by simp [ksT]

theorem dedupT_snoc (l : List (Int × Int)) (x : Int × Int) : ∀ p,
    dedupT p (l ++ [x]) = dedupT p l ++ (if lastD p (l.map Prod.snd) = x.2 then [] else [x]) := by
  induction l with
  | nil => intro p; by_cases h : p = x.2 <;> simp [dedupT, lastD, h]
  | cons y ys ih =>
    intro p
    simp only [List.cons_append, dedupT, List.map_cons, lastD]
    split
    · rename_i h; subst h; exact ih _
    · rw [ih y.2]; rfl

theorem ksT_vals (r : List Msg) : ∀ c : Int, (ksT (eventsRelGo c r)).map Prod.snd = ksVals r := by
  induction r with
  | nil => intro c; rfl
  | cons m ms ih =>
    intro c
    by_cases hw : m.ty = .wait
    · simp only [eventsRelGo, hw, beq_self_eq_true, if_true, ih]
      simp [ksVals, hw]
    · have hb : (m.ty == MType.wait) = false := by simpa using hw
      simp only [eventsRelGo, hb, Bool.false_eq_true, if_false]
      have := ih c
      by_cases hk : m.ty = .keySignature
      · simp only [ksT, ksVals, List.filter_cons, hk, beq_self_eq_true, if_true, List.map_cons] at this ⊢
        rw [this]
      · have hb2 : (m.ty == MType.keySignature) = false := by simpa using hk
        simp only [ksT, ksVals, List.filter_cons, hb2, Bool.false_eq_true, if_false] at this ⊢
        exact this

structure InvK (pre : List Msg) (s : NormSt) : Prop where
  kt : ksT (eventsRelGo 0 (msgs s.O)) = dedupT pyNone (ksT (eventsRelGo 0 pre))

theorem invK_init : InvK [] {} := ⟨rfl⟩

theorem invK_step (pre : List Msg) (s : NormSt) (m : Msg) (hT : InvT pre s) (hS : InvS pre s)
    (h : InvK pre s) : InvK (pre ++ [m]) (normStep s m) := by
  constructor
  rw [step_events pre s m hT, events_snoc, ksT_append, ksT_append, h.kt]
  by_cases hk : m.ty = .keySignature
  · have hw : m.ty ≠ .wait := by rw [hk]; decide
    have h1 : ksT [stamp m (0 + totalWait pre)] = [(0 + totalWait pre, m.key)] := by
      simp [ksT, stamp, hk]
    rw [if_neg hw, h1, dedupT_snoc, ksT_vals, ← hS.ks]
    congr 1
    have hkeep : keep s m = (m.key != s.key) := by simp [keep, hk]
    by_cases hk' : keep s m = true
    · have : ¬ s.key = m.key := by intro he; simp [hkeep, he] at hk'
      simp only [hk', if_true, this, if_false]
      simp [ksT, stamp, hk]
    · have : s.key = m.key := by rw [hkeep] at hk'; simp at hk'; rw [hk']
      simp [hk', this, ksT]
  · have h1 : ∀ t, ksT [stamp m t] = [] := by
      intro t; simp [ksT, stamp, hk]
    have h2 : ksT (if m.ty = .wait then [] else [stamp m (0 + totalWait pre)]) = [] := by
      split
      · rfl
      · exact h1 _
    have h3 : ksT (if keep s m = true then [stamp m (totalWait pre)] else []) = [] := by
      split
      · exact h1 _
      · rfl
    rw [h2, h3, List.append_nil, List.append_nil]

theorem inv_k (r : List Msg) (hr : NonNegWaits r) : InvK r (r.foldl normStep {}) := by
  have := fold_inv (fun pre post s => NonNegWaits (pre ++ post) → InvT pre s ∧ InvS pre s ∧ InvK pre s)
    (fun pre m post s h hnn => by
      have hnn' : NonNegWaits (pre ++ m :: post) := by simpa using hnn
      have ⟨hT, hS, hK⟩ := h hnn'
      have hm : m.ty = .wait → 0 ≤ m.time := hnn' m (by simp)
      exact ⟨invT_step pre s m hm hT, invS_step pre s m hS, invK_step pre s m hT hS hK⟩) r [] {}
      (fun _ => ⟨invT_init, invS_init, invK_init⟩)
  simp only [List.nil_append, List.append_nil] at this
  exact (this hr).2.2

theorem isKS_stampInv : StampInv (fun m : Msg => m.ty == .keySignature) := fun _ _ => rfl

/-- timed version of `normalise_ksVals`: which key signatures survive, and at which ticks -/
theorem normalise_ksT (r : List Msg) (hr : NonNegWaits r) :
    ksT (eventsRel (normalise r)) = dedupT pyNone (ksT (eventsRel r)) := by
  have ⟨hA, _, _⟩ := inv_basic r
  have hK := inv_k r hr
  rw [normalise_eq]
  simp only [eventsRel, ksT]
  rw [eventsRelGo_filter_filter _ isKS_stampInv, events_full]
  · exact hK.kt
  · intro e he hq
    have := (Q_false hA e he hq).2.1
    simp [this]

/-! ## C18 at wrapper level -/

/-- the wrapper invariant of `C04` on concrete wrapper states -/
def SeqInv (s : Seq) : Prop := C04.Inv C04.views (C04.ofSeq s)

theorem seqInv_iff (s : Seq) : SeqInv s ↔
    (¬(s.absStale = true ∧ s.relStale = true)
    ∧ (s.absStale = false → OkAbs s.abs)
    ∧ (s.relStale = false → OkRel s.rel)
    ∧ (s.absStale = false → s.relStale = false →
        (eventsAbs s.abs).Perm (eventsRel s.rel) ∧ durAbs s.abs = durRel s.rel)) := Iff.rfl

/-- both views of `s` can be read, are legal, and show the timed events `evs` (up to the order of
    simultaneous events) and the duration `dur` -/
def ViewsShow (s : Seq) (evs : List Msg) (dur : Int) : Prop :=
  (∃ s' a, s.readAbs = .ok (s', a) ∧ OkAbs a ∧ (eventsAbs a).Perm evs ∧ durAbs a = dur)
  ∧ (∃ s' r, s.readRel = .ok (s', r) ∧ OkRel r ∧ (eventsRel r).Perm evs ∧ durRel r = dur)

/-- in the invariant both views show the same content -/
theorem inv_views (s : Seq) (h : SeqInv s) :
    ∃ s0 r, s.readRel = .ok (s0, r) ∧ ViewsShow s (eventsRel r) (durRel r) := by
  obtain ⟨a, r, fa, fr⟩ := s
  rw [seqInv_iff] at h
  obtain ⟨h1, h2, h3, h4⟩ := h
  cases fa <;> cases fr
  · have ha := h2 rfl; have hr := h3 rfl; have he := h4 rfl rfl
    exact ⟨_, r, rfl, ⟨_, a, rfl, ha, he.1, he.2⟩, ⟨_, r, rfl, hr, List.Perm.refl _, rfl⟩⟩
  · have ha := h2 rfl
    refine ⟨_, toRel a, rfl, ⟨_, a, rfl, ha, ?_, ?_⟩, ⟨_, toRel a, rfl, C04.toRel_ok a ha, List.Perm.refl _, rfl⟩⟩
    · rw [C04.toRel_events a ha]
    · rw [C04.toRel_duration a ha]
  · have hr := h3 rfl
    exact ⟨_, r, rfl, ⟨_, toAbs r, rfl, C04.toAbs_ok r hr, C04.toAbs_events r hr, C04.toAbs_duration r hr⟩,
      ⟨_, r, rfl, hr, List.Perm.refl _, rfl⟩⟩
  · exact absurd ⟨rfl, rfl⟩ h1

theorem inv_views_abs (s : Seq) (h : SeqInv s) :
    ∃ s0 a, s.readAbs = .ok (s0, a) ∧ OkAbs a ∧ ViewsShow s (eventsAbs a) (durAbs a) := by
  obtain ⟨a, r, fa, fr⟩ := s
  rw [seqInv_iff] at h
  obtain ⟨h1, h2, h3, h4⟩ := h
  cases fa <;> cases fr
  · have ha := h2 rfl; have hr := h3 rfl; have he := h4 rfl rfl
    exact ⟨_, a, rfl, ha, ⟨_, a, rfl, ha, List.Perm.refl _, rfl⟩, ⟨_, r, rfl, hr, he.1.symm, he.2.symm⟩⟩
  · have ha := h2 rfl
    refine ⟨_, a, rfl, ha, ⟨_, a, rfl, ha, List.Perm.refl _, rfl⟩, ⟨_, toRel a, rfl, C04.toRel_ok a ha, ?_, ?_⟩⟩
    · rw [C04.toRel_events a ha]
    · rw [C04.toRel_duration a ha]
  · have hr := h3 rfl
    exact ⟨_, toAbs r, rfl, C04.toAbs_ok r hr, ⟨_, toAbs r, rfl, C04.toAbs_ok r hr, List.Perm.refl _, rfl⟩,
      ⟨_, r, rfl, hr, (C04.toAbs_events r hr).symm, (C04.toAbs_duration r hr).symm⟩⟩
  · exact absurd ⟨rfl, rfl⟩ h1

/-- a relative-side mutator from any state in the invariant: succeeds, keeps the invariant, and both
    views then show the content of `f r`, `r` being the relative content before -/
theorem onRel_views (s s0 : Seq) (r : List Msg) (f : List Msg → List Msg) (h : SeqInv s)
    (hread : s.readRel = .ok (s0, r)) (hf : OkRel r → OkRel (f r)) :
    ∃ s', s.onRel (fun r => .ok (f r)) = .ok s' ∧ SeqInv s' ∧ ViewsShow s' (eventsRel (f r)) (durRel (f r))
      ∧ s'.readRel = .ok (s', f r) := by
  obtain ⟨a, rl, fa, fr⟩ := s
  rw [seqInv_iff] at h
  obtain ⟨h1, h2, h3, h4⟩ := h
  have key : ∀ (a0 : List Msg), OkRel r →
      SeqInv { abs := a0, rel := f r, absStale := true, relStale := false }
      ∧ ViewsShow { abs := a0, rel := f r, absStale := true, relStale := false } (eventsRel (f r)) (durRel (f r)) := by
    intro a0 hr
    have hfr := hf hr
    refine ⟨?_, ⟨_, toAbs (f r), rfl, C04.toAbs_ok _ hfr, C04.toAbs_events _ hfr, C04.toAbs_duration _ hfr⟩,
      ⟨_, f r, rfl, hfr, List.Perm.refl _, rfl⟩⟩
    rw [seqInv_iff]
    exact ⟨by simp, by simp, fun _ => hfr, by simp⟩
  cases fa <;> cases fr
  · simp only [Seq.readRel, Bool.false_eq_true, if_false, Except.ok.injEq, Prod.mk.injEq] at hread
    obtain ⟨_, rfl⟩ := hread
    exact ⟨_, rfl, (key a (h3 rfl)).1, (key a (h3 rfl)).2, rfl⟩
  · simp only [Seq.readRel, if_true, Bool.false_eq_true, if_false, Except.ok.injEq, Prod.mk.injEq] at hread
    obtain ⟨_, rfl⟩ := hread
    have := C04.toRel_ok a (h2 rfl)
    exact ⟨_, rfl, (key a this).1, (key a this).2, rfl⟩
  · simp only [Seq.readRel, Bool.false_eq_true, if_false, Except.ok.injEq, Prod.mk.injEq] at hread
    obtain ⟨_, rfl⟩ := hread
    exact ⟨_, rfl, (key a (h3 rfl)).1, (key a (h3 rfl)).2, rfl⟩
  · exact absurd ⟨rfl, rfl⟩ h1

/-- an absolute-side mutator, symmetrically -/
theorem onAbs_views (s s0 : Seq) (a : List Msg) (f : List Msg → List Msg) (h : SeqInv s)
    (hread : s.readAbs = .ok (s0, a)) (hf : OkAbs a → OkAbs (f a)) :
    ∃ s', s.onAbs (fun a => .ok (f a)) = .ok s' ∧ SeqInv s'
      ∧ s'.readAbs = .ok (s', f a) ∧ OkAbs (f a)
      ∧ ∃ s'', s'.readRel = .ok (s'', toRel (f a)) := by
  obtain ⟨ab, rl, fa, fr⟩ := s
  rw [seqInv_iff] at h
  obtain ⟨h1, h2, h3, h4⟩ := h
  have key : ∀ (r0 : List Msg), OkAbs a →
      SeqInv { abs := f a, rel := r0, absStale := false, relStale := true } ∧ OkAbs (f a) := by
    intro r0 ha
    have hfa := hf ha
    refine ⟨?_, hfa⟩
    rw [seqInv_iff]
    exact ⟨by simp, fun _ => hfa, by simp, by simp⟩
  cases fa <;> cases fr
  · simp only [Seq.readAbs, Bool.false_eq_true, if_false, Except.ok.injEq, Prod.mk.injEq] at hread
    obtain ⟨_, rfl⟩ := hread
    exact ⟨_, rfl, (key rl (h2 rfl)).1, rfl, (key rl (h2 rfl)).2, _, rfl⟩
  · simp only [Seq.readAbs, Bool.false_eq_true, if_false, Except.ok.injEq, Prod.mk.injEq] at hread
    obtain ⟨_, rfl⟩ := hread
    exact ⟨_, rfl, (key rl (h2 rfl)).1, rfl, (key rl (h2 rfl)).2, _, rfl⟩
  · simp only [Seq.readAbs, if_true, Bool.false_eq_true, if_false, Except.ok.injEq, Prod.mk.injEq] at hread
    obtain ⟨_, rfl⟩ := hread
    have := C04.toAbs_ok rl (h3 rfl)
    exact ⟨_, rfl, (key rl this).1, rfl, (key rl this).2, _, rfl⟩
  · exact absurd ⟨rfl, rfl⟩ h1

/-- `notesOf` does not look at non-note messages -/
theorem notesGo_filter (p : Msg → Bool) (hp : ∀ m : Msg, m.ty = .noteOn ∨ m.ty = .noteOff → p m = true)
    (l : List Msg) : ∀ opens, notesGo (l.filter p) opens = notesGo l opens := by
  induction l with
  | nil => intro _; rfl
  | cons m ms ih =>
    intro opens
    by_cases hon : m.ty = .noteOn
    · simp only [List.filter_cons, hp m (Or.inl hon), if_true, notesGo, hon, beq_self_eq_true, ih]
    · by_cases hoff : m.ty = .noteOff
      · simp only [List.filter_cons, hp m (Or.inr hoff), if_true, notesGo, hoff, beq_self_eq_true]
        split <;> simp only [ih]
      · have hb : (m.ty == MType.noteOn) = false := by simpa using hon
        have hb2 : (m.ty == MType.noteOff) = false := by simpa using hoff
        simp only [List.filter_cons]
        split
        · simp only [notesGo, hb, hb2, Bool.false_eq_true, if_false, ih]
        · simp only [notesGo, hb, hb2, Bool.false_eq_true, if_false, ih]

theorem notesOf_eventsAbs (a : List Msg) : notesOf (eventsAbs a) = notesOf a := by
  unfold notesOf eventsAbs
  apply notesGo_filter
  intro m hm
  rcases hm with h | h <;> simp [h]

theorem nonNotes_eventsAbs_perm {a b : List Msg} (h : (nonNotes a).Perm (nonNotes b)) :
    (nonNotes (eventsAbs a)).Perm (nonNotes (eventsAbs b)) := by
  have e : ∀ x : List Msg, nonNotes (eventsAbs x) = (nonNotes x).filter (fun m => m.ty != .internal) := by
    intro x
    simp only [nonNotes, eventsAbs, List.filter_filter]
    congr 1
    funext m
    exact Bool.and_comm _ _
  rw [e, e]
  exact h.filter _

/-! ## C19: the detokeniser never removes a message it has placed (Model/Token.lean `dpart`:
    every branch either leaves `seqs` alone or inserts with `insort` via `addAbs` / `map`) -/

/-- every message of every output sequence of `a` is still in the same sequence of `b` -/
def SeqsLe (a b : List (List Msg)) : Prop :=
  ∀ (i : Nat) (l : List Msg), a[i]? = some l → ∃ l', b[i]? = some l' ∧ ∀ m ∈ l, m ∈ l'

theorem seqsLe_refl (a : List (List Msg)) : SeqsLe a a := fun _ l h => ⟨l, h, fun _ hm => hm⟩
theorem seqsLe_trans {a b c : List (List Msg)} (h1 : SeqsLe a b) (h2 : SeqsLe b c) : SeqsLe a c := by
  intro i l hl
  obtain ⟨l1, e1, m1⟩ := h1 i l hl
  obtain ⟨l2, e2, m2⟩ := h2 i l1 e1
  exact ⟨l2, e2, fun m hm => m2 m (m1 m hm)⟩

theorem seqsLe_addAbs (seqs : List (List Msg)) (i : Nat) (m : Msg) : SeqsLe seqs (addAbs seqs i m) := by
  unfold addAbs
  induction seqs generalizing i with
  | nil => intro j l h; simp at h
  | cons x xs ih =>
    intro j l h
    cases i with
    | zero =>
      cases j with
      | zero =>
        simp only [List.getElem?_cons_zero, Option.some.injEq] at h; subst h
        exact ⟨insort x m, by simp [modifyAt], fun y hy => mem_insort_of_mem m hy⟩
      | succ j => exact ⟨l, by simpa [modifyAt] using h, fun _ hy => hy⟩
    | succ i =>
      cases j with
      | zero =>
        simp only [List.getElem?_cons_zero, Option.some.injEq] at h; subst h
        exact ⟨x, by simp [modifyAt], fun _ hy => hy⟩
      | succ j =>
        simp only [List.getElem?_cons_succ] at h
        obtain ⟨l', e, hm⟩ := ih i j l h
        exact ⟨l', by simpa [modifyAt] using e, hm⟩

theorem seqsLe_map_insort (seqs : List (List Msg)) (m : Msg) :
    SeqsLe seqs (seqs.map (fun l => insort l m)) := by
  intro i l h
  exact ⟨insort l m, by simp [h], fun y hy => mem_insort_of_mem m hy⟩

theorem dpart_seqsLe (c : Cfg) (d d' : DetokSt) (p : Part) (h : dpart c d p = .ok d') :
    SeqsLe d.seqs d'.seqs := by
  cases p with
  | pad | sta | sto | rest _ | trk _ | val _ | vel _ =>
    simp only [dpart] at h; cases h; exact seqsLe_refl _
  | bar => simp only [dpart] at h; cases h; exact seqsLe_map_insort _ _
  | pit p =>
    simp only [dpart] at h
    split at h
    · cases h
    · cases h
      exact seqsLe_trans (seqsLe_addAbs _ _ _) (seqsLe_addAbs _ _ _)
  | tsig a b =>
    simp only [dpart] at h
    split at h
    · cases h; exact seqsLe_refl _
    · split at h
      · cases h
      · cases h
        simp only
        split
        · split
          · exact seqsLe_refl _
          · exact seqsLe_addAbs _ _ _
        · exact seqsLe_refl _

theorem dparts_seqsLe (c : Cfg) (ps : List Part) : ∀ (d d' : DetokSt),
    ps.foldl (fun (acc : Except Err DetokSt) p =>
      match acc with | .ok d => dpart c d p | .error e => .error e) (Except.ok d) = .ok d' →
    SeqsLe d.seqs d'.seqs := by
  induction ps with
  | nil => intro d d' h; simp only [List.foldl] at h; cases h; exact seqsLe_refl _
  | cons p ps ih =>
    intro d d' h
    simp only [List.foldl] at h
    cases hp : dpart c d p with
    | error e =>
      rw [hp] at h
      have : ∀ (l : List Part), l.foldl (fun (acc : Except Err DetokSt) p =>
          match acc with | .ok d => dpart c d p | .error e => .error e) (Except.error e) = .error e := by
        intro l; induction l with
        | nil => rfl
        | cons _ _ ih2 => simpa [List.foldl] using ih2
      rw [this] at h; cases h
    | ok d1 =>
      rw [hp] at h
      exact seqsLe_trans (dpart_seqsLe c d d1 p hp) (ih d1 d' h)

theorem dstep_seqsLe (c : Cfg) (d d' : DetokSt) (t : Tok) (h : dstep c d t = .ok d') :
    SeqsLe d.seqs d'.seqs := dparts_seqsLe c t.parts d d' h

/-- one step of the detokeniser fold, errors propagated -/
def dstepE (c : Cfg) (acc : Except Err DetokSt) (t : Tok) : Except Err DetokSt :=
  match acc with | .ok d => dstep c d t | .error e => .error e

/-- the detokeniser fold from an arbitrary state -/
def dfoldFrom (c : Cfg) (d : DetokSt) (toks : List Tok) : Except Err DetokSt :=
  toks.foldl (dstepE c) (Except.ok d)

theorem foldl_dstepE_error (c : Cfg) (e : Err) (toks : List Tok) :
    toks.foldl (dstepE c) (Except.error e) = .error e := by
  induction toks with
  | nil => rfl
  | cons t ts ih => simpa [List.foldl, dstepE] using ih

theorem dfoldFrom_init (c : Cfg) (toks : List Tok) : dfoldFrom c (DetokSt.init c) toks = detokFold c toks := rfl

theorem dfoldFrom_seqsLe (c : Cfg) (toks : List Tok) : ∀ (d d' : DetokSt),
    dfoldFrom c d toks = .ok d' → SeqsLe d.seqs d'.seqs := by
  induction toks with
  | nil => intro d d' h; simp only [dfoldFrom, List.foldl] at h; cases h; exact seqsLe_refl _
  | cons t ts ih =>
    intro d d' h
    simp only [dfoldFrom, List.foldl, dstepE] at h
    cases ht : dstep c d t with
    | error e => rw [ht, foldl_dstepE_error] at h; cases h
    | ok d1 =>
      rw [ht] at h
      exact seqsLe_trans (dstep_seqsLe c d d1 t ht) (ih d1 d' h)

/-- an accepted stream splits at any token: the prefix is accepted, then the token, then the rest -/
theorem dfoldFrom_split (c : Cfg) (pre : List Tok) (t : Tok) (post : List Tok) : ∀ (d0 dfin : DetokSt),
    dfoldFrom c d0 (pre ++ t :: post) = .ok dfin →
    ∃ d d', dfoldFrom c d0 pre = .ok d ∧ dstep c d t = .ok d' ∧ dfoldFrom c d' post = .ok dfin := by
  induction pre with
  | nil =>
    intro d0 dfin h
    simp only [List.nil_append, dfoldFrom, List.foldl, dstepE] at h
    cases ht : dstep c d0 t with
    | error e => rw [ht, foldl_dstepE_error] at h; cases h
    | ok d' => rw [ht] at h; exact ⟨d0, d', rfl, ht, h⟩
  | cons x xs ih =>
    intro d0 dfin h
    simp only [List.cons_append, dfoldFrom, List.foldl, dstepE] at h
    cases hx : dstep c d0 x with
    | error e => rw [hx, foldl_dstepE_error] at h; cases h
    | ok d1 =>
      rw [hx] at h
      obtain ⟨d, d', e1, e2, e3⟩ := ih d1 dfin h
      refine ⟨d, d', ?_, e2, e3⟩
      simp only [dfoldFrom, List.foldl, dstepE, hx]
      exact e1

/-- a note token, explicitly: set the running track / value / velocity, then place the pitch -/
theorem dstep_note_eq (c : Cfg) (d : DetokSt) (tr : Option Int) (p : Int) (v w : Option Int) :
    dstep c d (.note tr p v w) =
      dpart c { d with prvTrack := tr.getD d.prvTrack, prvValue := v.getD d.prvValue,
                       prvVel := w.getD d.prvVel } (.pit p) := by
  cases tr <;> cases v <;> cases w <;> rfl

/-- where the note of an accepted note token goes -/
theorem dstep_note_placed (c : Cfg) (d d' : DetokSt) (tr : Option Int) (p : Int) (v w : Option Int)
    (h : dstep c d (.note tr p v w) = .ok d') :
    ∃ l, d'.seqs[(tr.getD d.prvTrack).toNat]? = some l
      ∧ Msg.mkOn 0 p (w.getD d.prvVel) d.curTime ∈ l
      ∧ Msg.mkOff 0 p (d.curTime + v.getD d.prvValue) ∈ l := by
  rw [dstep_note_eq] at h
  simp only [dpart] at h
  split at h
  · cases h
  · rename_i hc
    simp only [Bool.or_eq_true, decide_eq_true_eq, not_or, Int.not_lt, Nat.not_le] at hc
    cases h
    simp only [addAbs, modifyAt_getElem?]
    have : d.seqs[(tr.getD d.prvTrack).toNat]? = some (d.seqs[(tr.getD d.prvTrack).toNat]'hc.2) := by simp
    rw [this]
    exact ⟨_, rfl, mem_insort_of_mem _ (mem_insort_self _ _), mem_insort_self _ _⟩

/-! ## C19: the circle-of-fifths function of the generated code -/

def cofCore (r : Int) : Bool :=
  match Gen.getPosition r with
  | some q => decide (-5 ≤ q) && decide (q ≤ 6) && (Gen.circleOfFifthsOrder[(q + 5).toNat]? == some r)
  | none => false

theorem cof_core : ∀ r ∈ List.range 12, cofCore (r : Int) = true := by decide

/-- `get_position` is total; its value is the index of the pitch class in the circle-of-fifths order, minus 5 -/
theorem getPosition_spec (p : Int) :
    Gen.getPosition p = some (genCof p) ∧ -5 ≤ genCof p ∧ genCof p ≤ 6
      ∧ Gen.circleOfFifthsOrder[(genCof p + 5).toNat]? = some (p % 12) := by
  have h := C20.forall_residue (P := fun r => cofCore r = true) cof_core p
  unfold cofCore at h
  unfold genCof
  rw [C20.getPosition_mod p]
  split at h
  · rename_i q hq
    simp only [Bool.and_eq_true, decide_eq_true_eq, beq_iff_eq] at h
    rw [hq]
    exact ⟨rfl, h.1.1, h.1.2, h.2⟩
  · cases h

/-! ## C19: threaded calls -/

/-- a sequence of `tokenise` calls, each starting from the state the previous one returned; the token
    streams are concatenated -/
def threaded (c : Cfg) : TokSt → List (List (Int × Pairing)) → Except Err (List Tok × TokSt)
  | st, [] => .ok ([], st)
  | st, evs :: rest =>
    match tokeniseCore c st evs with
    | .error e => .error e
    | .ok (t1, st1) =>
      match threaded c st1 rest with
      | .error e => .error e
      | .ok (t2, st2) => .ok (t1 ++ t2, st2)

/-- what `core_sim` needs of, and re-establishes for, the carried state -/
def Ready (c : Cfg) (st : TokSt) : Prop :=
  0 ≤ st.curTimeBar
  ∧ (0 < st.capRem ∨ (st.curTimeBar = 0 ∧ st.capRem = c.capacity st.tsNum st.tsDen))
  ∧ 0 < c.capacity st.tsNum st.tsDen

theorem ready_init (c : Cfg) (h : 0 < c.capacity c.defNum c.defDen) : Ready c (TokSt.init c) :=
  ⟨Int.le_refl 0, Or.inr ⟨rfl, rfl⟩, h⟩

theorem Ready.remPos {c : Cfg} {st : TokSt} (h : Ready c st) : 0 < st.capRem := by
  obtain ⟨_, h2 | h2, h3⟩ := h
  · exact h2
  · rw [h2.2]; exact h3

theorem evsOk_shift {c : Cfg} {evs : List (Int × Pairing)} (h : EvsOk c 0 0 evs) (t : Int) : EvsOk c t t evs :=
  ⟨h.chans, h.ordered, fun ev he m hm => by have := h.notBefore ev he m hm; omega, h.denPos⟩

theorem mono_dfold (c : Cfg) (toks : List Tok) : ∀ (d d' : DetokSt) (log : List Emit),
    InBar.Mono c d toks → dfold c d toks = .ok (d', log) → d.curTime ≤ d'.curTime := by
  induction toks with
  | nil => intro d d' log _ h; simp only [dfold] at h; cases h; exact Int.le_refl _
  | cons t ts ih =>
    intro d d' log hm h
    simp only [dfold] at h
    split at h
    · cases h
    · rename_i d1 log1 h1
      split at h
      · cases h
      · rename_i d2 log2 h2
        simp only [Except.ok.injEq, Prod.mk.injEq] at h
        obtain ⟨hle, hm1⟩ := hm d1 log1 h1
        have := ih d1 d2 log2 hm1 h2
        rw [← h.1]
        omega

/-- the per-call capacity side condition of `C19.times_monotone` -/
def CapsPos (c : Cfg) (evs : List (Int × Pairing)) : Prop :=
  ∀ ev ∈ evs, ∀ m ∈ ev.2.head?, m.ty = .timeSignature → 0 < c.capacity m.num m.den

theorem threaded_sim (c : Cfg) (hc : CfgOk c) (calls : List (List (Int × Pairing))) :
    ∀ (st st' : TokSt) (toks : List Tok) (d : DetokSt), Ready c st → RelD c st d →
      (∀ evs ∈ calls, EvsOk c 0 0 evs ∧ CapsPos c evs) → threaded c st calls = .ok (toks, st') →
      InBar.Mono c d toks ∧ ∃ d' log, dfold c d toks = .ok (d', log) ∧ RelD c st' d' ∧ Ready c st'
        ∧ List.Pairwise (· < ·) (InBar.bes log)
        ∧ (∀ t ∈ InBar.bes log, st.curTime < t ∧ t ≤ st'.curTime) ∧ st.curTime ≤ st'.curTime := by
  induction calls with
  | nil =>
    intro st st' toks d hr hd _ h
    simp only [threaded, Except.ok.injEq, Prod.mk.injEq] at h
    obtain ⟨rfl, rfl⟩ := h
    exact ⟨trivial, d, [], rfl, hd, hr, List.Pairwise.nil, by simp [InBar.bes], Int.le_refl _⟩
  | cons evs rest ih =>
    intro st st' toks d hr hd hcalls h
    simp only [threaded] at h
    split at h
    · cases h
    · rename_i t1 st1 h1
      split at h
      · cases h
      · rename_i t2 st2 h2
        simp only [Except.ok.injEq, Prod.mk.injEq] at h
        obtain ⟨rfl, rfl⟩ := h
        obtain ⟨hev0, hcap⟩ := hcalls evs (by simp)
        have hev := evsOk_shift hev0 st.curTime
        obtain ⟨E, a1, a2, a3, a4, a5⟩ := core_sim c hc st st1 evs t1 hr.1 hr.2.1 hev h1
        obtain ⟨d1, log1, b1, b2, b3⟩ := a5 d hd
        have hr1 : Ready c st1 := ⟨a2, a3, a4 (fun n dd => 0 < c.capacity n dd) hr.2.2 hcap⟩
        have hm1 := InBar.core_mono c hc st st1 evs t1 hr.1 hr.2.1 hev h1 d hd
        have hle1 : st.curTime ≤ st1.curTime := by
          have := mono_dfold c t1 d d1 log1 hm1 b1
          rw [hd.cur, b2.cur] at this; exact this
        have hpw1 : List.Pairwise (· < ·) (InBar.bes log1) := by
          have := InBar.specLog_pw c st evs hr.remPos hr.1 hr.2.2 hcap
          rw [a1] at this
          simp only at this
          rw [← b3, InBar.bes_filter] at this
          exact this
        have hb1 : ∀ t ∈ InBar.bes log1, st.curTime < t ∧ t ≤ st1.curTime := by
          intro t ht
          have hinv := (specLog_inv c st evs hr.remPos hr.1 hr.2.2 hcap).2.1 t
          rw [a1] at hinv
          simp only [clockOf] at hinv
          apply hinv
          rw [← b3, ← InBar.mem_bes, InBar.bes_filter]
          exact ht
        obtain ⟨hm2, d2, log2, c1, c2, c3, c4, c5, c6⟩ :=
          ih st1 st2 t2 d1 hr1 b2 (fun e he => hcalls e (by simp [he])) h2
        refine ⟨InBar.Mono_append hm1 (fun dd lg hdf => by rw [b1] at hdf; cases hdf; exact hm2),
          d2, log1 ++ log2, dfold_append b1 c1, c2, c3, ?_, ?_, by omega⟩
        · rw [InBar.bes_append, List.pairwise_append]
          refine ⟨hpw1, c4, fun a ha b hb => ?_⟩
          have := (hb1 a ha).2
          have := (c5 b hb).1
          omega
        · intro t ht
          rw [InBar.bes_append, List.mem_append] at ht
          rcases ht with ht | ht
          · have := hb1 t ht; omega
          · have := c5 t ht; omega

end SCoda.GapsL
