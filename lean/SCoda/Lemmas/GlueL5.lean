/-
  Helper lemmas for Props/C03f, part 5 (audit A1 (ii), item (A)): the bar sequences `splitBars` builds from tracks
  that are well-formed, free of zero-length notes and on one channel are good tracks (`ExtractL.TrackGood`).
  * `split` keeps every message on the track's channel and introduces no INTERNAL message (`split_allQ`);
  * per key, a "nice" timed event list (`SB.NicePairs`: disjoint notes of positive length) is well-formed and its
    `notesOf` are of positive length (`wf_pos_of_nice`) — the bridge from `NoZeroNotes` (relative lists) to
    `n.on < n.off` (`notesOf`), through `SB.nice_of_first`;
  * the note events of a bar are, key by key, those of the piece it was built from (`bar_key_events`);
  * `bar_trackGood`, `trackRun_good`, `splitBars_trackGood`.
-/
import SCoda.Lemmas.GlueL4
import SCoda.Lemmas.SplitBarsQ
namespace SCoda.GlueL
open SCoda SCoda.C01 SCoda.ChunksL SCoda.ExtractL SCoda.SplitL SCoda.SB SCoda.BarL

/-! ## `split` keeps the channel -/

/-- every message is on channel `ch` and none is INTERNAL -/
def AllQ (ch : Int) (l : List Msg) : Prop := ∀ m ∈ l, m.ch = ch ∧ m.ty ≠ .internal

theorem allQ_nil (ch : Int) : AllQ ch [] := by intro m hm; simp at hm

theorem allQ_append {ch : Int} {a b : List Msg} (ha : AllQ ch a) (hb : AllQ ch b) : AllQ ch (a ++ b) := by
  intro m hm
  rcases List.mem_append.1 hm with h | h
  · exact ha m h
  · exact hb m h

theorem allQ_cons {ch : Int} {a : Msg} {b : List Msg} (ha : a.ch = ch ∧ a.ty ≠ .internal) (hb : AllQ ch b) : AllQ ch (a :: b) := by
  intro m hm
  rcases List.mem_cons.1 hm with rfl | h
  · exact ha
  · exact hb m h

theorem allQ_reverse {ch : Int} {a : List Msg} (ha : AllQ ch a) : AllQ ch a.reverse :=
  fun m hm => ha m (List.mem_reverse.1 hm)

structure SInv (ch : Int) (s : SplitSt) : Prop where
  wm : AllQ ch s.wm
  cur : AllQ ch s.cur
  queue : AllQ ch s.queue
  opens : ∀ kv ∈ s.opens, kv.2.ch = ch
  pieces : ∀ p ∈ s.pieces, AllQ ch p

theorem allQ_offs {ch : Int} (opens : Assoc (Int × Int) Msg) (h : ∀ kv ∈ opens, kv.2.ch = ch) : AllQ ch (opens.map offOf) := by
  intro m hm
  obtain ⟨kv, hkv, rfl⟩ := List.mem_map.1 hm
  exact ⟨h kv hkv, by simp [offOf]⟩

theorem allQ_ons {ch : Int} (opens : Assoc (Int × Int) Msg) (h : ∀ kv ∈ opens, kv.2.ch = ch) : AllQ ch (opens.map onOf) := by
  intro m hm
  obtain ⟨kv, hkv, rfl⟩ := List.mem_map.1 hm
  exact ⟨h kv hkv, by simp [onOf]⟩

theorem splitInner_allQ (ch : Int) (fuel : Nat) (rem : Int) (s s' : SplitSt) (hI : SInv ch s)
    (h : splitInner fuel rem s = .ok s') : SInv ch s' := by
  refine splitInner_inv (fun _ s0 => SInv ch s0) (fun s0 => SInv ch s0) ?_ ?_ ?_ ?_ ?_ ?_ fuel rem s s' hI h
  · intro rem cur queue opens pieces hP
    refine ⟨allQ_nil ch, allQ_nil ch, allQ_nil ch, hP.opens, ?_⟩
    intro p hp
    split at hp
    · exact hP.pieces p hp
    · rcases List.mem_cons.1 hp with rfl | hp
      · exact allQ_reverse hP.cur
      · exact hP.pieces p hp
  · intro rem m wm cur queue opens pieces hP _ _ _
    have hm := hP.wm m List.mem_cons_self
    refine ⟨fun x hx => hP.wm x (List.mem_cons_of_mem _ hx), allQ_cons hm hP.cur, hP.queue, ?_, hP.pieces⟩
    intro kv hkv
    split at hkv
    · rcases GluePair.mem_set _ _ _ kv hkv with h | h
      · exact hP.opens kv h
      · rw [h]; exact hm.1
    · exact hP.opens kv hkv
  · intro rem m wm cur queue opens pieces hP _ _ _
    have hm := hP.wm m List.mem_cons_self
    exact ⟨fun x hx => hP.wm x (List.mem_cons_of_mem _ hx), hP.cur, allQ_cons hm hP.queue, hP.opens, hP.pieces⟩
  · intro rem m wm cur queue opens pieces hP _
    have hm := hP.wm m List.mem_cons_self
    exact ⟨fun x hx => hP.wm x (List.mem_cons_of_mem _ hx), allQ_cons hm hP.cur, hP.queue,
      fun kv hkv => hP.opens kv ((GluePair.erase_sublist _ _).subset hkv), hP.pieces⟩
  · intro rem m wm cur queue opens pieces hP _ _
    have hm := hP.wm m List.mem_cons_self
    exact ⟨fun x hx => hP.wm x (List.mem_cons_of_mem _ hx), allQ_cons hm hP.cur, hP.queue, hP.opens, hP.pieces⟩
  · intro rem m wm cur queue opens pieces hP _ _
    have hm := hP.wm m List.mem_cons_self
    have hwait : ∀ t, (Msg.mkWait m.ch t).ch = ch ∧ (Msg.mkWait m.ch t).ty ≠ .internal := fun t => ⟨hm.1, by simp [Msg.mkWait]⟩
    have hcl : AllQ ch (closedPiece rem m cur opens) := by
      unfold closedPiece
      refine allQ_append (allQ_reverse hP.cur) (allQ_append ?_ (allQ_offs opens hP.opens))
      split
      · exact allQ_cons (hwait _) (allQ_nil ch)
      · exact allQ_nil ch
    refine ⟨?_, allQ_nil ch, allQ_nil ch, hP.opens, ?_⟩
    · unfold carried
      exact allQ_append (allQ_reverse hP.queue) (allQ_append (allQ_ons opens hP.opens)
        (allQ_cons (hwait _) (fun x hx => hP.wm x (List.mem_cons_of_mem _ hx))))
    · intro p hp
      split at hp
      · exact hP.pieces p hp
      · rcases List.mem_cons.1 hp with rfl | hp
        · exact hcl
        · exact hP.pieces p hp

theorem splitOuter_allQ (ch : Int) : ∀ caps (s s' : SplitSt), SInv ch s → splitOuter caps s = .ok s' → SInv ch s' := by
  intro caps
  induction caps with
  | nil => intro s s' hI h; simp only [splitOuter, Except.ok.injEq] at h; subst h; exact hI
  | cons c cs ih =>
    intro s s' hI h
    simp only [splitOuter, bind, Except.bind] at h
    split at h
    · simp at h
    · rename_i s1 h1
      exact ih s1 s' (splitInner_allQ ch _ _ _ s1 (⟨hI.wm, hI.cur, allQ_nil ch, hI.opens, hI.pieces⟩ : SInv ch { s with queue := [] }) h1) h

/-- **`split` keeps the channel**: every piece of a list whose messages are all on channel `ch` (none INTERNAL) is
    such a list -/
theorem split_allQ (ch : Int) (r : List Msg) (caps : List Int) (pieces : List (List Msg)) (h : split r caps = .ok pieces)
    (hr : AllQ ch r) : ∀ p ∈ pieces, AllQ ch p := by
  obtain ⟨s, hs, rfl⟩ := split_eq r caps pieces h
  have hI := splitOuter_allQ ch caps { wm := r } s
    ⟨hr, allQ_nil ch, allQ_nil ch, by intro kv hkv; simp at hkv, by intro p hp; simp at hp⟩ hs
  intro p hp
  rw [List.mem_reverse] at hp
  split at hp
  · exact hI.pieces p hp
  · rcases List.mem_cons.1 hp with rfl | hp
    · exact allQ_append (allQ_reverse hI.cur) hI.wm
    · exact hI.pieces p hp

/-! ## nice per-key lists: well-formed, notes of positive length -/

theorem nice_alt (k : Int × Int) : ∀ (ps : List (Msg × Msg)) (lo : Int), NicePairs k lo ps → altFrom k false (flat ps) := by
  intro ps
  induction ps with
  | nil => intro _ _; simp [flat, altFrom]
  | cons p rest ih =>
    intro lo hn
    obtain ⟨h1, h2, h3, h4, _, _, h7⟩ := hn
    rw [flat_cons]
    have a1 : p.1.nkey = k ∧ p.1.ty = .noteOn := ⟨h3, h1⟩
    have a2 : ¬ (p.2.nkey = k ∧ p.2.ty = .noteOn) := by rw [h2]; simp
    have a3 : p.2.nkey = k ∧ p.2.ty = .noteOff := ⟨h4, h2⟩
    simp only [altFrom, if_pos a1, if_neg a2, if_pos a3, true_and]
    exact ih _ h7

theorem nice_notes (k : Int × Int) : ∀ (ps : List (Msg × Msg)) (lo : Int), NicePairs k lo ps →
    notesGo (flat ps) [] = ps.map NotesL.mkNote := by
  intro ps
  induction ps with
  | nil => intro _ _; rfl
  | cons p rest ih =>
    intro lo hn
    obtain ⟨h1, h2, h3, h4, _, _, h7⟩ := hn
    rw [flat_cons]
    have e1 : (p.1.ty == MType.noteOn) = true := by simp [h1]
    have e2 : (p.2.ty == MType.noteOn) = false := by simp [h2]
    have e3 : (p.2.ty == MType.noteOff) = true := by simp [h2]
    have e4 : (p.1.nkey == p.2.nkey) = true := by simp [h3, h4]
    simp only [notesGo, e1, e2, e3, if_true, List.filter_nil, List.find?_cons, e4, Bool.false_eq_true, if_false,
      List.map_cons]
    have e5 : (p.1.nkey != p.2.nkey) = false := by simp [h3, h4]
    simp only [List.filter_cons, e5, Bool.false_eq_true, if_false, List.filter_nil]
    rw [ih _ h7]
    rfl

theorem nice_pos (k : Int × Int) : ∀ (ps : List (Msg × Msg)) (lo : Int), NicePairs k lo ps → ∀ p ∈ ps, p.1.time < p.2.time := by
  intro ps
  induction ps with
  | nil => intro _ _ p hp; simp at hp
  | cons q rest ih =>
    intro lo hn p hp
    obtain ⟨_, _, _, _, _, h6, h7⟩ := hn
    rcases List.mem_cons.1 hp with rfl | hp
    · exact h6
    · exact ih _ h7 p hp

/-- **a timed event list that is nice key by key is well-formed and all its notes have positive length** -/
theorem wf_pos_of_nice (E : List Msg) (h : ∀ k, ∃ ps lo, NicePairs k lo ps ∧ E.filter (isKN k) = flat ps) :
    WF E ∧ ∀ n ∈ notesOf E, n.on < n.off := by
  constructor
  · intro k
    obtain ⟨ps, lo, hn, he⟩ := h k
    rw [← altFrom_filter_kn, he]
    exact nice_alt k ps lo hn
  · intro n hn
    obtain ⟨ps, lo, hnice, he⟩ := h (n.ch, n.pitch)
    have hp := NotesL.notesGo_proj (n.ch, n.pitch) E []
    simp only [List.filter_nil] at hp
    have hmem : n ∈ (notesGo E []).filter (fun x => decide ((x.ch, x.pitch) = (n.ch, n.pitch))) :=
      List.mem_filter.2 ⟨hn, by simp⟩
    rw [hp, he, nice_notes _ ps lo hnice, List.mem_map] at hmem
    obtain ⟨p, hpp, rfl⟩ := hmem
    exact nice_pos _ ps lo hnice p hpp

/-! ## putting a one-channel list on channel `i` -/

def setCh (i : Nat) (m : Msg) : Msg := { m with ch := (i : Int) }

theorem nice_setCh (i : Nat) (ch p : Int) : ∀ (ps : List (Msg × Msg)) (lo : Int), NicePairs (ch, p) lo ps →
    NicePairs ((i : Int), p) lo (ps.map (fun q => (setCh i q.1, setCh i q.2))) := by
  intro ps
  induction ps with
  | nil => intro _ _; trivial
  | cons q rest ih =>
    intro lo hn
    obtain ⟨h1, h2, h3, h4, h5, h6, h7⟩ := hn
    refine ⟨h1, h2, ?_, ?_, h5, h6, ih _ h7⟩
    · have : q.1.note = p := by have := congrArg Prod.snd h3; exact this
      simp [setCh, Msg.nkey, this]
    · have : q.2.note = p := by have := congrArg Prod.snd h4; exact this
      simp [setCh, Msg.nkey, this]

theorem flat_map_setCh (i : Nat) (ps : List (Msg × Msg)) :
    flat (ps.map (fun q => (setCh i q.1, setCh i q.2))) = (flat ps).map (setCh i) := by
  induction ps with
  | nil => rfl
  | cons q rest ih => simp only [List.map_cons, flat_cons, ih]

/-- a timed event list, nice key by key, whose note messages are all on channel `ch`, is nice key by key once put on
    channel `i` -/
theorem nice_on_channel (i : Nat) (ch : Int) (E : List Msg)
    (hch : ∀ m ∈ E, (m.ty = .noteOn ∨ m.ty = .noteOff) → m.ch = ch)
    (h : ∀ k, ∃ ps lo, NicePairs k lo ps ∧ E.filter (isKN k) = flat ps) :
    ∀ k, ∃ ps lo, NicePairs k lo ps ∧ (E.map (setCh i)).filter (isKN k) = flat ps := by
  intro k
  obtain ⟨i', p⟩ := k
  by_cases hi : i' = (i : Int)
  · subst hi
    obtain ⟨ps, lo, hn, he⟩ := h (ch, p)
    refine ⟨ps.map (fun q => (setCh i q.1, setCh i q.2)), lo, nice_setCh i ch p ps lo hn, ?_⟩
    rw [flat_map_setCh, ← he, List.filter_map]
    congr 1
    apply List.filter_congr
    intro m hm
    simp only [Function.comp, isKN, setCh, Msg.nkey, Prod.mk.injEq, true_and]
    by_cases hty : m.ty = .noteOn ∨ m.ty = .noteOff
    · have := hch m hm hty
      simp [hty, this]
    · simp [hty]
  · refine ⟨[], 0, trivial, ?_⟩
    rw [flat_nil, List.filter_eq_nil_iff]
    intro m hm
    obtain ⟨m0, _, rfl⟩ := List.mem_map.1 hm
    simp only [isKN, setCh, Msg.nkey, Prod.mk.injEq, decide_eq_true_eq, not_and]
    intro ⟨h1, _⟩
    exact absurd h1.symm hi

/-! ## a bar built from a good piece is a good track -/

theorem fuseK_of_alt (k : Int × Int) : ∀ (l : List Msg) (b : Bool), altFrom k b l → fuseK k b.toNat l = l.filter (isKN k) := by
  intro l
  induction l with
  | nil => intro _ _; rfl
  | cons m ms ih =>
    intro b h
    by_cases hk : m.nkey = k
    · by_cases hon : m.ty = .noteOn
      · have a1 : m.nkey = k ∧ m.ty = .noteOn := ⟨hk, hon⟩
        simp only [altFrom, if_pos a1] at h
        obtain ⟨hb, h'⟩ := h
        subst hb
        have hp : isKN k m = true := by simp [isKN, hk, hon]
        simp only [fuseK, hk, hon, if_true, Bool.toNat_false, List.filter_cons, hp]
        exact congrArg _ (ih true h')
      · by_cases hoff : m.ty = .noteOff
        · have a1 : ¬ (m.nkey = k ∧ m.ty = .noteOn) := fun h => hon h.2
          have a2 : m.nkey = k ∧ m.ty = .noteOff := ⟨hk, hoff⟩
          simp only [altFrom, if_neg a1, if_pos a2] at h
          obtain ⟨hb, h'⟩ := h
          subst hb
          have hp : isKN k m = true := by simp [isKN, hk, hoff]
          simp only [fuseK, hk, hoff, if_true, if_false, Bool.toNat_true, List.filter_cons, hp, reduceCtorEq]
          exact congrArg _ (ih false h')
        · have a1 : ¬ (m.nkey = k ∧ m.ty = .noteOn) := fun h => hon h.2
          have a2 : ¬ (m.nkey = k ∧ m.ty = .noteOff) := fun h => hoff h.2
          simp only [altFrom, if_neg a1, if_neg a2] at h
          have hp : isKN k m = false := by simp [isKN, hon, hoff]
          simp only [fuseK, hk, hon, hoff, if_true, if_false, List.filter_cons, hp, Bool.false_eq_true]
          exact ih b h
    · have a1 : ¬ (m.nkey = k ∧ m.ty = .noteOn) := fun h => hk h.1
      have a2 : ¬ (m.nkey = k ∧ m.ty = .noteOff) := fun h => hk h.1
      simp only [altFrom, if_neg a1, if_neg a2] at h
      have hp : isKN k m = false := by simp [isKN, hk]
      simp only [fuseK, hk, if_false, List.filter_cons, hp, Bool.false_eq_true]
      exact ih b h

/-- key by key, the note events of a bar are those of the (well-formed) piece it was built from -/
theorem bar_key_events (ppqn : Int) (first : List Msg) (n d : Int) (hw : NonNegWaits first) (hwf : WF first) (k : Int × Int) :
    (eventsRel (barSeq ppqn first n d)).filter (isKN k) = (eventsRel first).filter (isKN k) := by
  rw [barSeq_events]
  have h0 : isKN k (Msg.mkTimeSig 0 n d 0) = false := by simp [isKN, Msg.mkTimeSig]
  rw [List.filter_cons, h0]
  simp only [Bool.false_eq_true, if_false]
  rw [List.filter_filter]
  have hc : (eventsRel (normalise first)).filter (fun a => isKN k a && (a.ty != MType.timeSignature))
      = (eventsRel (normalise first)).filter (isKN k) := by
    apply List.filter_congr
    intro m _
    by_cases h : isKN k m = true
    · have : m.ty = .noteOn ∨ m.ty = .noteOff := by
        simp only [isKN, decide_eq_true_eq] at h
        exact h.2
      rcases this with e | e <;> simp [h, e]
    · simp [h]
  rw [hc, normalise_fuse first hw (fun k => C07.depth_of_balanced k first 0 (paired_of_wf first hwf k)) k]
  exact fuseK_of_alt k _ false (E2E.wf_events first hwf k)

/-- **a bar built by `mkBar` from a piece that is well-formed, free of zero-length notes and on one channel is a
    good track on every track number** -/
theorem bar_trackGood (ppqn : Int) (first : List Msg) (n d key : Int) (b : Bar) (i : Nat) (ch : Int)
    (hmk : mkBar ppqn first n d key = .ok b) (hw : NonNegWaits first) (hwf : WF first) (hz : NoZeroNotes first)
    (hq : AllQ ch first) : TrackGood i b.seq := by
  obtain ⟨_, _, _, hb⟩ := mkBar_ok hmk
  subst hb
  simp only
  have hnice : ∀ k, ∃ ps lo, NicePairs k lo ps ∧ (eventsRel (barSeq ppqn first n d)).filter (isKN k) = flat ps := by
    intro k
    obtain ⟨ps, h1, h2⟩ := nice_of_first k first hw hwf hz
    exact ⟨ps, 0, h1, by rw [bar_key_events ppqn first n d hw hwf k, h2]⟩
  have hch : ∀ m ∈ eventsRel (barSeq ppqn first n d), (m.ty = .noteOn ∨ m.ty = .noteOff) → m.ch = ch := by
    intro m hm hty
    rw [barSeq_events] at hm
    rcases List.mem_cons.1 hm with rfl | hm
    · rcases hty with e | e <;> simp [Msg.mkTimeSig] at e
    · have h1 := (normalise_events_sublist first hw).subset (List.mem_filter.1 hm).1
      obtain ⟨m0, hm0, _, t, rfl⟩ := GlueAux.eventsRelGo_src first 0 m h1
      exact (hq m0 hm0).1
  have hE := wf_pos_of_nice _ (nice_on_channel i ch _ hch hnice)
  refine ⟨⟨barSeq_nonneg ppqn first n d, ?_⟩, hE.1, hE.2⟩
  intro m hm
  unfold barSeq at hm
  rcases List.mem_cons.1 hm with rfl | hm
  · simp [Msg.mkTimeSig]
  · have hmb := (List.mem_filter.1 hm).1
    rcases barBody_cases ppqn first n d with e | ⟨w, hwt, _, e⟩
    · rw [e] at hmb
      rcases normalise_entries first m hmb with h1 | h1
      · rw [h1.1]; simp
      · exact (hq m h1.2).2
    · rw [e] at hmb
      rcases List.mem_append.1 hmb with hmb | hmb
      · rcases normalise_entries first m hmb with h1 | h1
        · rw [h1.1]; simp
        · exact (hq m h1.2).2
      · simp only [List.mem_singleton] at hmb
        rw [hmb, hwt]; simp

/-! ## along a per-track run -/

theorem trackRun_good (ppqn : Int) (values : List Int) (i : Nat) (ch : Int) : ∀ (gs : List Sg) (t : List Msg) (tw : List Bool)
    (t' : List Msg) (nb : List Bar), trackRun ppqn values false gs t = .ok (tw, t', nb) → (∀ g ∈ gs, 0 < sgLen ppqn g) →
    NonNegWaits t → WF t → NoZeroNotes t → AllQ ch t → ∀ b ∈ nb, TrackGood i b.seq := by
  intro gs
  induction gs with
  | nil =>
    intro t tw t' nb h _ _ _ _ _ b hb
    simp only [trackRun, Except.ok.injEq, Prod.mk.injEq] at h
    obtain ⟨_, _, rfl⟩ := h
    simp at hb
  | cons g gs ih =>
    intro t tw t' nb h hpos hw hwf hz hq b hb
    obtain ⟨o, r, h1, h2, h3⟩ := trackRun_cons_inv h
    simp only [Prod.mk.injEq] at h3
    obtain ⟨rfl, rfl, rfl⟩ := h3
    have hc := hpos g List.mem_cons_self
    obtain ⟨pieces, first, piece, hs, hrq, hmk, hcase⟩ := trackStep_spec h1
    have hpe := requantPiece_false values ppqn first piece hrq
    subst hpe
    obtain ⟨hP, _⟩ := split_one_notes t _ pieces hs hc hw hwf hz (0, 0) 0 0
    have hQ := split_allQ ch t _ pieces hs hq
    have hpiece : WF piece ∧ NonNegWaits piece ∧ NoZeroNotes piece ∧ AllQ ch piece := by
      rcases hcase with ⟨_, hf, _, _⟩ | ⟨hp, _, _⟩ | ⟨tl, hp, _⟩
      · subst hf; exact ⟨wf_nil, nnw_nil, noZero_nil, allQ_nil ch⟩
      · obtain ⟨a, b', c'⟩ := hP piece (by simp [hp]); exact ⟨a, b', c', hQ piece (by simp [hp])⟩
      · obtain ⟨a, b', c'⟩ := hP piece (by simp [hp]); exact ⟨a, b', c', hQ piece (by simp [hp])⟩
    have hrest : WF o.2.1 ∧ NonNegWaits o.2.1 ∧ NoZeroNotes o.2.1 ∧ AllQ ch o.2.1 := by
      rcases hcase with ⟨_, _, _, hr⟩ | ⟨_, _, hr⟩ | ⟨tl, hp, _⟩
      · rw [hr]; exact ⟨wf_nil, nnw_nil, noZero_nil, allQ_nil ch⟩
      · rw [hr]; exact ⟨wf_nil, nnw_nil, noZero_nil, allQ_nil ch⟩
      · obtain ⟨a, b', c'⟩ := hP o.2.1 (by simp [hp]); exact ⟨a, b', c', hQ o.2.1 (by simp [hp])⟩
    rcases List.mem_cons.1 hb with rfl | hb
    · exact bar_trackGood ppqn piece _ _ _ _ i ch hmk hpiece.2.1 hpiece.1 hpiece.2.2.1 hpiece.2.2.2
    · exact ih _ _ _ _ h2 (fun x hx => hpos x (List.mem_cons_of_mem _ hx)) hrest.2.1 hrest.1 hrest.2.2.1 hrest.2.2.2 b hb

/-- **every bar sequence `splitBars` returns is a good track**, for tracks with non-negative waits and no INTERNAL
    message, well-formed, free of zero-length notes and on one channel each, and bars of positive length -/
theorem splitBars_trackGood (ppqn : Int) (values : List Int) (tracks : List (List Msg)) (tb : List (List Bar))
    (h : splitBars ppqn values tracks 0 false = .ok tb)
    (hpos : ∀ b ∈ tb.headD [], 0 < barCapacity ppqn b.num b.den)
    (htr : ∀ t ∈ tracks, OkRel t ∧ WF t ∧ NoZeroNotes t ∧ ∃ ch, ∀ m ∈ t, m.ch = ch) :
    ∀ i bs, tb[i]? = some bs → ∀ b ∈ bs, TrackGood i b.seq := by
  obtain ⟨metaTrack, r, hm, hl, hall, _⟩ := splitBars_run ppqn values tracks 0 false tb h
  have h0 : 0 < tb.length := by rw [hl]; exact lt_of_getElem?_some hm
  have hhead : tb.headD [] = tb[0] := by
    cases tb with
    | nil => simp at h0
    | cons a _ => rfl
  obtain ⟨mT, r', hm', hs, _⟩ := C09.run_track0 ppqn values tracks 0 false tb h tb[0] (List.getElem?_eq_getElem h0)
  rw [hm] at hm'; cases hm'
  obtain ⟨tw0, t0', nb0, hrun0, htb0, _⟩ := hall 0 _ hm
  have hr : r' = r := by
    have e1 := congrArg List.length hs
    rw [List.length_map, sched_length] at e1
    obtain ⟨_, e2, _⟩ := trackRun_shape ppqn values false _ _ _ _ _ hrun0
    rw [sched_length] at e2
    rw [List.getElem?_eq_getElem h0, Option.some.injEq] at htb0
    rw [htb0, e2] at e1
    omega
  subst hr
  have hgpos : ∀ g ∈ sched ppqn metaTrack (r' + 1), 0 < sgLen ppqn g := by
    intro g hg
    rw [← hs, List.mem_map] at hg
    obtain ⟨b, hb, rfl⟩ := hg
    exact hpos b (by rw [hhead]; exact hb)
  intro i bs hbs b hb
  have hi : i < tracks.length := by rw [← hl]; exact lt_of_getElem?_some hbs
  obtain ⟨tw, t', nb, hrun, htb, _⟩ := hall i _ (getElem?_some_of_lt hi)
  rw [hbs] at htb
  cases htb
  obtain ⟨hok, hwf, hz, ch, hch⟩ := htr _ (List.getElem_mem hi)
  exact trackRun_good ppqn values i ch _ _ _ _ _ hrun hgpos hok.1 hwf hz (fun m hm => ⟨hch m hm, hok.2 m hm⟩) b hb

end SCoda.GlueL
