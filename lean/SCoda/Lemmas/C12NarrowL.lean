/-
  Helper lemmas for `Props/C12n.lean` (audit round 2, item F5 / section D: the carve-out `Saved.oneCh` of the
  C12 notes and sounding theorems is wider than the recorded defect D21).

  * `closing`: a waiting note-on whose key is well-formed in the rest of the list becomes a note;
  * `mono_good`: notes of equal pitch on different channels that neither overlap nor touch keep the event list
    well-formed (per pitch, with notes of positive length) once the channel is forgotten;
  * `compat_of_good` / `notesGo_noteOf'`: then reading the notes commutes with forgetting the channel;
  * `saved_proj'`: `MidiL2.saved_proj` for multi-channel saved sequences.
-/
import SCoda.Lemmas.MidiL2
import SCoda.Lemmas.NotesBL
namespace SCoda.C12NarrowL
open SCoda SCoda.MidiL SCoda.MergeL SCoda.C13 SCoda.E2E SCoda.L2

/-- an event with its channel forgotten (what a MIDI track written by `sequences_save` keeps of it) -/
def mono1 (m : Msg) : Msg := { m with ch := 0 }
/-- a timed event list with the channels forgotten -/
def mono (E : List Msg) : List Msg := E.map mono1

/-- two notes of equal pitch on different channels neither overlap nor touch -/
def ChanSep (S : List Note) : Prop :=
  ∀ n ∈ S, ∀ n' ∈ S, n.pitch = n'.pitch → n.ch ≠ n'.ch → n.off < n'.on ∨ n'.off < n.on

theorem ChanSep.of_append {A B : List Note} (h : ChanSep (A ++ B)) : ChanSep B :=
  fun n hn n' hn' => h n (List.mem_append_right _ hn) n' (List.mem_append_right _ hn')

/-- the waiting note-ons after event `m` (one step of `notesGo`) -/
def nextOpens (m : Msg) (opens : List Msg) : List Msg :=
  if m.ty = .noteOn then m :: opens.filter (fun o => o.nkey != m.nkey)
  else if m.ty = .noteOff then
    match opens.find? (fun o => o.nkey == m.nkey) with
    | some _ => opens.filter (fun x => x.nkey != m.nkey)
    | none => opens
  else opens

theorem notesGo_next (m : Msg) (ms opens : List Msg) :
    ∃ pre, notesGo (m :: ms) opens = pre ++ notesGo ms (nextOpens m opens) := by
  by_cases hon : m.ty = .noteOn
  · exact ⟨[], by rw [notesGo_on hon]; simp [nextOpens, hon]⟩
  · by_cases hoff : m.ty = .noteOff
    · cases hf : opens.find? (fun o => o.nkey == m.nkey) with
      | none => exact ⟨[], by rw [notesGo_off_none hoff ms opens hf]; simp [nextOpens, hoff, hf]⟩
      | some x =>
        exact ⟨[{ ch := x.ch, pitch := x.note, on := x.time, off := m.time, vel := x.vel }],
          by rw [notesGo_off_some hoff ms opens hf]; simp [nextOpens, hoff, hf]⟩
    · exact ⟨[], by rw [notesGo_other hon hoff]; simp [nextOpens, hon, hoff]⟩

/-- a waiting note-on `y` (the first of its key) whose key is well-formed in the rest of the list becomes a note
    that ends at an event of the list -/
theorem closing : ∀ (L opens : List Msg) (y : Msg),
    opens.find? (fun o => o.nkey == y.nkey) = some y → goodFrom y.nkey (some y.time) L →
    ∃ n ∈ notesGo L opens, n.ch = y.ch ∧ n.pitch = y.note ∧ n.on = y.time ∧ y.time < n.off ∧ ∃ e ∈ L, n.off = e.time := by
  intro L
  induction L with
  | nil => intro opens y _ hg; simp [goodFrom] at hg
  | cons m ms ih =>
    intro opens y hf hg
    rcases cases3 y.nkey m with h | h | ⟨h1, h2⟩
    · rw [goodFrom_cons_on h] at hg
      simp at hg
    · rw [goodFrom_cons_off h] at hg
      obtain ⟨⟨t0, ht0, hlt⟩, _⟩ := hg
      cases ht0
      have hf' : opens.find? (fun o => o.nkey == m.nkey) = some y := by rw [h.1]; exact hf
      rw [notesGo_off_some h.2 ms opens hf']
      exact ⟨_, List.mem_cons_self, rfl, rfl, rfl, hlt, m, List.mem_cons_self, rfl⟩
    · rw [goodFrom_cons_other h1 h2] at hg
      have lift : ∀ opens', opens'.find? (fun o => o.nkey == y.nkey) = some y →
          ∃ n ∈ notesGo ms opens', n.ch = y.ch ∧ n.pitch = y.note ∧ n.on = y.time ∧ y.time < n.off
            ∧ ∃ e ∈ m :: ms, n.off = e.time := by
        intro opens' hf'
        obtain ⟨n, hn, a1, a2, a3, a4, e, he, a5⟩ := ih opens' y hf' hg
        exact ⟨n, hn, a1, a2, a3, a4, e, List.mem_cons_of_mem _ he, a5⟩
      by_cases hon : m.ty = .noteOn
      · have hk : y.nkey ≠ m.nkey := fun e => h1 ⟨e.symm, hon⟩
        rw [notesGo_on hon]
        apply lift
        rw [List.find?_cons_of_neg (by simpa using (Ne.symm hk)), MergeL.find_filter_ne _ _ hk, hf]
      · by_cases hoff : m.ty = .noteOff
        · have hk : y.nkey ≠ m.nkey := fun e => h2 ⟨e.symm, hoff⟩
          cases hfm : opens.find? (fun o => o.nkey == m.nkey) with
          | none =>
            rw [notesGo_off_none hoff ms opens hfm]
            exact lift opens hf
          | some x =>
            rw [notesGo_off_some hoff ms opens hfm]
            obtain ⟨n, hn, h⟩ := lift (opens.filter (fun x => x.nkey != m.nkey))
              (by rw [MergeL.find_filter_ne _ _ hk, hf])
            exact ⟨n, List.mem_cons_of_mem _ hn, h⟩
        · rw [notesGo_other hon hoff]
          exact lift opens hf

/-! ## forgetting the channel keeps a channel-separated list well-formed -/

theorem mono_cons (m : Msg) (ms : List Msg) : mono (m :: ms) = mono1 m :: mono ms := rfl

theorem find_unique (opens : List Msg) (x : Msg) (k : Int × Int) (hx : x ∈ opens) (hk : x.nkey = k)
    (hu : ∀ y ∈ opens, y.nkey = k → y = x) : opens.find? (fun o => o.nkey == k) = some x := by
  cases hf : opens.find? (fun o => o.nkey == k) with
  | none =>
    have := List.find?_eq_none.1 hf x hx
    simp [hk] at this
  | some y =>
    have h1 := List.mem_of_find?_eq_some hf
    have h2 := List.find?_some hf
    simp only [beq_iff_eq] at h2
    rw [hu y h1 h2]

/-- the state of pitch `p` while scanning: `none` — no waiting note-on of pitch `p`, every channel of pitch `p`
    closed; `some t0` — exactly one waiting note-on of pitch `p`, at `t0`, its channel open, the others closed -/
def St (p : Int) (opens L : List Msg) : Option Int → Prop
  | none => (∀ x ∈ opens, x.note ≠ p) ∧ ∀ c, goodFrom (c, p) none L
  | some t0 => ∃ x ∈ opens, x.note = p ∧ x.time = t0 ∧ (∀ y ∈ opens, y.note = p → y = x) ∧
      goodFrom (x.ch, p) (some t0) L ∧ (∀ c, c ≠ x.ch → goodFrom (c, p) none L) ∧ ∀ e ∈ L, t0 ≤ e.time

theorem mem_next (p : Int) (m : Msg) (opens : List Msg) (hm : ¬(m.note = p ∧ (m.ty = .noteOn ∨ m.ty = .noteOff)))
    (y : Msg) (hy : y.note = p) : y ∈ nextOpens m opens ↔ y ∈ opens := by
  unfold nextOpens
  by_cases hon : m.ty = .noteOn
  · have hne : m.note ≠ p := fun e => hm ⟨e, Or.inl hon⟩
    have hk : y.nkey ≠ m.nkey := by
      intro e; simp only [Msg.nkey, Prod.mk.injEq] at e; exact hne (e.2.symm.trans hy)
    have hym : y ≠ m := fun e => hne (e ▸ hy)
    simp [hon, hym, hk]
  · by_cases hoff : m.ty = .noteOff
    · have hne : m.note ≠ p := fun e => hm ⟨e, Or.inr hoff⟩
      have hk : y.nkey ≠ m.nkey := by
        intro e; simp only [Msg.nkey, Prod.mk.injEq] at e; exact hne (e.2.symm.trans hy)
      have e1 : (MType.noteOff = MType.noteOn) = False := by simp
      simp only [hoff, e1, if_false, if_true]
      cases opens.find? (fun o => o.nkey == m.nkey) with
      | none => rfl
      | some _ => simp [hk]
    · simp [hon, hoff]

theorem St_other (p : Int) (m : Msg) (ms opens : List Msg) (o : Option Int)
    (hm : ¬(m.note = p ∧ (m.ty = .noteOn ∨ m.ty = .noteOff))) (h : St p opens (m :: ms) o) :
    St p (nextOpens m opens) ms o := by
  have hk : ∀ c ty, (ty = MType.noteOn ∨ ty = MType.noteOff) → ¬(m.nkey = (c, p) ∧ m.ty = ty) := by
    intro c ty hty hh
    have := hh.1
    simp only [Msg.nkey, Prod.mk.injEq] at this
    exact hm ⟨this.2, hh.2 ▸ hty⟩
  have hgo : ∀ c o', goodFrom (c, p) o' (m :: ms) → goodFrom (c, p) o' ms := fun c o' hg =>
    (goodFrom_cons_other (hk c _ (Or.inl rfl)) (hk c _ (Or.inr rfl)) ms o').1 hg
  cases o with
  | none =>
    obtain ⟨h1, h2⟩ := h
    refine ⟨fun x hx hxp => h1 x ((mem_next p m opens hm x hxp).1 hx) hxp, fun c => hgo c _ (h2 c)⟩
  | some t0 =>
    obtain ⟨x, hx, hxp, hxt, hu, g1, g2, ht⟩ := h
    exact ⟨x, (mem_next p m opens hm x hxp).2 hx, hxp, hxt,
      fun y hy hyp => hu y ((mem_next p m opens hm y hyp).1 hy) hyp,
      hgo _ _ g1, fun c hc => hgo c _ (g2 c hc), fun e he => ht e (List.mem_cons_of_mem _ he)⟩

/-- **the combinatorial core**: in a time-sorted event list in which every key is well-formed with notes of
    positive length, and notes of equal pitch on different channels neither overlap nor touch, every pitch stays
    well-formed with notes of positive length once the channel is forgotten -/
theorem mono_good_go (p : Int) : ∀ (L opens : List Msg) (o : Option Int), Sorted L → ChanSep (notesGo L opens) →
    St p opens L o → goodFrom (0, p) o (mono L) := by
  intro L
  induction L with
  | nil =>
    intro opens o _ _ h
    cases o with
    | none => rfl
    | some t0 =>
      obtain ⟨x, _, _, _, _, g1, _⟩ := h
      simp [goodFrom] at g1
  | cons m ms ih =>
    intro opens o hs hsep h
    have hs' := List.pairwise_cons.1 hs
    rw [mono_cons]
    by_cases hm : m.note = p ∧ (m.ty = .noteOn ∨ m.ty = .noteOff)
    · obtain ⟨hp, hty⟩ := hm
      have hmk : m.nkey = (m.ch, p) := by simp [Msg.nkey, hp]
      have hk0 : (mono1 m).nkey = (0, p) := by simp [mono1, Msg.nkey, hp]
      rcases hty with hon | hoff
      · -- a note-on of pitch p
        rw [goodFrom_cons_on (m := mono1 m) ⟨hk0, hon⟩]
        cases o with
        | none =>
          obtain ⟨h1, h2⟩ := h
          refine ⟨rfl, ih (m :: opens.filter (fun o => o.nkey != m.nkey)) (some m.time) hs'.2
            (by rw [notesGo_on hon] at hsep; exact hsep) ?_⟩
          refine ⟨m, List.mem_cons_self, hp, rfl, ?_, ?_, ?_, hs'.1⟩
          · intro y hy hyp
            rcases List.mem_cons.1 hy with rfl | hy
            · rfl
            · exact absurd hyp (h1 y (List.mem_filter.1 hy).1)
          · exact ((goodFrom_cons_on ⟨hmk, hon⟩ ms none).1 (h2 m.ch)).2
          · intro c hc
            have hne : ∀ ty, ¬(m.nkey = (c, p) ∧ m.ty = ty) := by
              intro ty hh; rw [hmk] at hh; exact hc (Prod.mk.inj hh.1).1.symm
            exact (goodFrom_cons_other (hne _) (hne _) ms none).1 (h2 c)
        | some t0 =>
          exfalso
          obtain ⟨x, hx, hxp, hxt, hu, g1, g2, ht⟩ := h
          have hxk : x.nkey = (x.ch, p) := by simp [Msg.nkey, hxp]
          by_cases hc : m.ch = x.ch
          · rw [goodFrom_cons_on (m := m) ⟨by rw [hmk, hc], hon⟩] at g1
            simp at g1
          · have hkne : x.nkey ≠ m.nkey := by
              rw [hxk, hmk]; intro e; exact hc (Prod.mk.inj e).1.symm
            rw [notesGo_on hon] at hsep
            have gm : goodFrom m.nkey (some m.time) ms := by
              rw [hmk]; exact ((goodFrom_cons_on ⟨hmk, hon⟩ ms none).1 (g2 m.ch hc)).2
            have gx : goodFrom x.nkey (some x.time) ms := by
              have hne : ∀ ty, ¬(m.nkey = (x.ch, p) ∧ m.ty = ty) := by
                intro ty hh; rw [hmk] at hh; exact hc (Prod.mk.inj hh.1).1
              rw [hxk, hxt]
              exact (goodFrom_cons_other (hne _) (hne _) ms _).1 g1
            have fm : (m :: opens.filter (fun o => o.nkey != m.nkey)).find? (fun o => o.nkey == m.nkey) = some m :=
              List.find?_cons_of_pos (by simp)
            have fx : (m :: opens.filter (fun o => o.nkey != m.nkey)).find? (fun o => o.nkey == x.nkey) = some x := by
              rw [List.find?_cons_of_neg (by simpa using (Ne.symm hkne)), MergeL.find_filter_ne _ _ hkne]
              apply find_unique opens x x.nkey hx rfl
              intro y hy hyk
              apply hu y hy
              rw [hxk] at hyk
              simp only [Msg.nkey, Prod.mk.injEq] at hyk
              exact hyk.2
            obtain ⟨n1, hn1, a1, a2, a3, a4, e1, he1, a5⟩ := closing ms _ x fx gx
            obtain ⟨n2, hn2, b1, b2, b3, b4, e2, he2, b5⟩ := closing ms _ m fm gm
            have := hsep n1 hn1 n2 hn2 (by rw [a2, b2, hxp, hp]) (by rw [a1, b1]; exact fun e => hc e.symm)
            have := hs'.1 e1 he1
            have := ht m List.mem_cons_self
            omega
      · -- a note-off of pitch p
        rw [goodFrom_cons_off (m := mono1 m) ⟨hk0, hoff⟩]
        cases o with
        | none =>
          exfalso
          obtain ⟨_, h2⟩ := h
          have := ((goodFrom_cons_off ⟨hmk, hoff⟩ ms none).1 (h2 m.ch)).1
          simp at this
        | some t0 =>
          obtain ⟨x, hx, hxp, hxt, hu, g1, g2, ht⟩ := h
          have hxk : x.nkey = (x.ch, p) := by simp [Msg.nkey, hxp]
          by_cases hc : m.ch = x.ch
          · have hmk' : m.nkey = (x.ch, p) := by rw [hmk, hc]
            obtain ⟨⟨t0', e0, hlt⟩, g⟩ := (goodFrom_cons_off ⟨hmk', hoff⟩ ms _).1 g1
            cases e0
            have hfm : opens.find? (fun o => o.nkey == m.nkey) = some x := by
              apply find_unique opens x m.nkey hx (by rw [hxk, hmk'])
              intro y hy hyk
              apply hu y hy
              rw [hmk] at hyk
              simp only [Msg.nkey, Prod.mk.injEq] at hyk
              exact hyk.2
            rw [notesGo_off_some hoff ms opens hfm] at hsep
            refine ⟨⟨t0, rfl, hlt⟩, ih (opens.filter (fun x => x.nkey != m.nkey)) none hs'.2
              (ChanSep.of_append (A := [_]) hsep) ⟨?_, ?_⟩⟩
            · intro y hy hyp
              obtain ⟨hy1, hy2⟩ := List.mem_filter.1 hy
              have := hu y hy1 hyp
              subst this
              rw [hxk, hmk'] at hy2
              simp at hy2
            · intro c
              by_cases hcx : c = x.ch
              · subst hcx; exact g
              · have hne : ∀ ty, ¬(m.nkey = (c, p) ∧ m.ty = ty) := by
                  intro ty hh; rw [hmk'] at hh; exact hcx (Prod.mk.inj hh.1).1.symm
                exact (goodFrom_cons_other (hne _) (hne _) ms none).1 (g2 c hcx)
          · exfalso
            have := ((goodFrom_cons_off ⟨hmk, hoff⟩ ms none).1 (g2 m.ch hc)).1
            simp at this
    · -- any other event
      have hne : ∀ ty, (ty = MType.noteOn ∨ ty = MType.noteOff) → ¬((mono1 m).nkey = (0, p) ∧ (mono1 m).ty = ty) := by
        intro ty hty hh
        have := hh.1
        simp only [mono1, Msg.nkey, Prod.mk.injEq] at this
        exact hm ⟨this.2, hh.2 ▸ hty⟩
      rw [goodFrom_cons_other (hne _ (Or.inl rfl)) (hne _ (Or.inr rfl))]
      obtain ⟨pre, hpre⟩ := notesGo_next m ms opens
      rw [hpre] at hsep
      exact ih (nextOpens m opens) o hs'.2 (ChanSep.of_append hsep) (St_other p m ms opens o hm h)

theorem mono_good (E : List Msg) (hs : Sorted E) (hg : ∀ k, goodFrom k none E) (hsep : ChanSep (notesOf E)) :
    ∀ k, goodFrom k none (mono E) := by
  rintro ⟨c, p⟩
  by_cases hc : c = 0
  · subst hc
    exact mono_good_go p E [] none hs hsep ⟨by simp, fun c => hg (c, p)⟩
  · apply goodFrom_other_channel c p hc
    intro x hx
    obtain ⟨m, _, rfl⟩ := List.mem_map.1 hx
    rfl

/-! ## from the channel-forgotten list to the loaded track -/

theorem noteOf_on' (m : Msg) (h : m.ty = .noteOn) :
    noteOf m = some (Msg.mkOn 0 m.note (if m.vel == pyNone then 127 else m.vel) m.time) := by
  simp [noteOf, h]

theorem noteOf_off' (m : Msg) (h : m.ty = .noteOff) : noteOf m = some (Msg.mkOff 0 m.note m.time) := by
  simp [noteOf, h]

theorem noteOf_other' (m : Msg) (h1 : m.ty ≠ .noteOn) (h2 : m.ty ≠ .noteOff) : noteOf m = none := by
  simp [noteOf, h1, h2]

/-- the loaded track (`filterMap noteOf`) is well-formed per key when the channel-forgotten list is -/
theorem good_noteOf (k : Int × Int) : ∀ (L : List Msg) (o : Option Int), goodFrom k o (mono L) →
    goodFrom k o (L.filterMap noteOf) := by
  intro L
  induction L with
  | nil => intro o h; exact h
  | cons m ms ih =>
    intro o hg
    rw [mono_cons] at hg
    by_cases hon : m.ty = .noteOn
    · rw [List.filterMap_cons, noteOf_on' m hon]
      by_cases hk : ((0 : Int), m.note) = k
      · have h1 : (mono1 m).nkey = k ∧ (mono1 m).ty = .noteOn := ⟨hk, hon⟩
        have h2 : (Msg.mkOn 0 m.note (if m.vel == pyNone then 127 else m.vel) m.time).nkey = k
            ∧ (Msg.mkOn 0 m.note (if m.vel == pyNone then 127 else m.vel) m.time).ty = .noteOn := ⟨hk, rfl⟩
        rw [goodFrom_cons_on h1] at hg
        rw [goodFrom_cons_on h2]
        exact ⟨hg.1, ih _ hg.2⟩
      · have h1 : ∀ ty, ¬((mono1 m).nkey = k ∧ (mono1 m).ty = ty) := fun ty hh => hk hh.1
        have h2 : ∀ ty, ¬((Msg.mkOn 0 m.note (if m.vel == pyNone then 127 else m.vel) m.time).nkey = k
            ∧ (Msg.mkOn 0 m.note (if m.vel == pyNone then 127 else m.vel) m.time).ty = ty) := fun ty hh => hk hh.1
        rw [goodFrom_cons_other (h1 _) (h1 _)] at hg
        rw [goodFrom_cons_other (h2 _) (h2 _)]
        exact ih _ hg
    · by_cases hoff : m.ty = .noteOff
      · rw [List.filterMap_cons, noteOf_off' m hoff]
        by_cases hk : ((0 : Int), m.note) = k
        · have h1 : (mono1 m).nkey = k ∧ (mono1 m).ty = .noteOff := ⟨hk, hoff⟩
          have h2 : (Msg.mkOff 0 m.note m.time).nkey = k ∧ (Msg.mkOff 0 m.note m.time).ty = .noteOff := ⟨hk, rfl⟩
          rw [goodFrom_cons_off h1] at hg
          rw [goodFrom_cons_off h2]
          exact ⟨hg.1, ih _ hg.2⟩
        · have h1 : ∀ ty, ¬((mono1 m).nkey = k ∧ (mono1 m).ty = ty) := fun ty hh => hk hh.1
          have h2 : ∀ ty, ¬((Msg.mkOff 0 m.note m.time).nkey = k ∧ (Msg.mkOff 0 m.note m.time).ty = ty) :=
            fun ty hh => hk hh.1
          rw [goodFrom_cons_other (h1 _) (h1 _)] at hg
          rw [goodFrom_cons_other (h2 _) (h2 _)]
          exact ih _ hg
      · rw [List.filterMap_cons, noteOf_other' m hon hoff]
        have h1 : ¬((mono1 m).nkey = k ∧ (mono1 m).ty = .noteOn) := fun hh => hon hh.2
        have h2 : ¬((mono1 m).nkey = k ∧ (mono1 m).ty = .noteOff) := fun hh => hoff hh.2
        rw [goodFrom_cons_other h1 h2] at hg
        exact ih _ hg

/-! ## reading the notes commutes with forgetting the channel -/

/-- no note event meets a waiting note-on of its pitch on another channel (the loader, which pairs by pitch
    alone, then pairs exactly as the saved sequence does) -/
def Compat : List Msg → List Msg → Prop
  | [], _ => True
  | m :: ms, opens => ((m.ty = .noteOn ∨ m.ty = .noteOff) → ∀ o ∈ opens, o.note = m.note → o.ch = m.ch)
      ∧ Compat ms (nextOpens m opens)

theorem key_ne_iff (c p : Int) (o : Msg) (hc : o.note = p → o.ch = c) :
    (o.nkey != (c, p)) = (((0 : Int), o.note) != (0, p)) := by
  by_cases hp : o.note = p
  · have : o.nkey = (c, p) := by simp [Msg.nkey, hp, hc hp]
    simp [this, hp]
  · have h1 : o.nkey ≠ (c, p) := by
      intro e; simp only [Msg.nkey, Prod.mk.injEq] at e; exact hp e.2
    have h2 : ((0 : Int), o.note) ≠ (0, p) := fun e => hp (Prod.mk.inj e).2
    rw [bne_iff_ne.2 h1, bne_iff_ne.2 h2]

theorem filter_fm (c p : Int) (opens : List Msg) (ho : ∀ o ∈ opens, o.ty = .noteOn ∧ o.vel ≠ pyNone)
    (hc : ∀ o ∈ opens, o.note = p → o.ch = c) :
    (opens.filterMap noteOf).filter (fun o => o.nkey != (0, p))
      = (opens.filter (fun o => o.nkey != (c, p))).filterMap noteOf := by
  induction opens with
  | nil => rfl
  | cons o os ih =>
    obtain ⟨h1, h3⟩ := ho o List.mem_cons_self
    have ih' := ih (fun x hx => ho x (List.mem_cons_of_mem _ hx)) (fun x hx => hc x (List.mem_cons_of_mem _ hx))
    rw [List.filterMap_cons, noteOf_on o h1 h3, List.filter_cons, List.filter_cons]
    have e : ((Msg.mkOn 0 o.note o.vel o.time).nkey != (0, p)) = (o.nkey != (c, p)) :=
      (key_ne_iff c p o (hc o List.mem_cons_self)).symm
    rw [e]
    split
    · rw [List.filterMap_cons, noteOf_on o h1 h3, ih']
    · exact ih'

theorem find_fm (c p : Int) (opens : List Msg) (ho : ∀ o ∈ opens, o.ty = .noteOn ∧ o.vel ≠ pyNone)
    (hc : ∀ o ∈ opens, o.note = p → o.ch = c) :
    (opens.filterMap noteOf).find? (fun o => o.nkey == (0, p))
      = (opens.find? (fun o => o.nkey == (c, p))).map (fun o => Msg.mkOn 0 o.note o.vel o.time) := by
  induction opens with
  | nil => rfl
  | cons o os ih =>
    obtain ⟨h1, h3⟩ := ho o List.mem_cons_self
    have ih' := ih (fun x hx => ho x (List.mem_cons_of_mem _ hx)) (fun x hx => hc x (List.mem_cons_of_mem _ hx))
    rw [List.filterMap_cons, noteOf_on o h1 h3, List.find?_cons, List.find?_cons]
    have e : ((Msg.mkOn 0 o.note o.vel o.time).nkey == (0, p)) = (o.nkey == (c, p)) := by
      have := key_ne_iff c p o (hc o List.mem_cons_self)
      simp only [bne] at this
      exact (Bool.not_inj this).symm
    rw [e]
    split
    · rfl
    · exact ih'

/-- save and load at the same resolution relabel the channel of every note to 0 and change nothing else, for a
    sequence in which no note event meets a waiting note-on of its pitch on another channel -/
theorem notesGo_noteOf' : ∀ (L opens : List Msg), Compat L opens →
    (∀ m ∈ L, m.ty = .noteOn → m.vel ≠ pyNone) → (∀ o ∈ opens, o.ty = .noteOn ∧ o.vel ≠ pyNone) →
    notesGo (L.filterMap noteOf) (opens.filterMap noteOf) = (notesGo L opens).map (fun n => { n with ch := 0 }) := by
  intro L
  induction L with
  | nil => intro opens _ _ _; rfl
  | cons m ms ih =>
    intro opens hcm hvel ho
    obtain ⟨hc, hnext⟩ := hcm
    have hvel' : ∀ x ∈ ms, x.ty = .noteOn → x.vel ≠ pyNone := fun x hx => hvel x (List.mem_cons_of_mem _ hx)
    by_cases hon : m.ty = .noteOn
    · have hv := hvel m List.mem_cons_self hon
      have hk' : m.nkey = (m.ch, m.note) := rfl
      have hn : nextOpens m opens = m :: opens.filter (fun o => o.nkey != m.nkey) := by simp [nextOpens, hon]
      rw [hn] at hnext
      rw [List.filterMap_cons, noteOf_on m hon hv]
      show notesGo (Msg.mkOn 0 m.note m.vel m.time :: ms.filterMap noteOf) _ = _
      rw [notesGo_cons_on _ rfl, notesGo_cons_on m hon]
      have := ih (m :: opens.filter (fun o => o.nkey != m.nkey)) hnext hvel' (by
        intro o ho'
        rcases List.mem_cons.1 ho' with rfl | ho'
        · exact ⟨hon, hv⟩
        · exact ho o (List.mem_filter.1 ho').1)
      rw [List.filterMap_cons, noteOf_on m hon hv] at this
      rw [← this, hk', ← filter_fm m.ch m.note opens ho (hc (Or.inl hon))]
      rfl
    · by_cases hoff : m.ty = .noteOff
      · have e : (m :: ms).filterMap noteOf = Msg.mkOff 0 m.note m.time :: ms.filterMap noteOf := by
          simp [noteOf, hoff]
        have hk' : m.nkey = (m.ch, m.note) := rfl
        have hkk : (Msg.mkOff 0 m.note m.time).nkey = (0, m.note) := rfl
        rw [e, notesGo_cons_off _ rfl, notesGo_cons_off m hoff, hkk, hk',
          find_fm m.ch m.note opens ho (hc (Or.inr hoff))]
        cases hf : opens.find? (fun o => o.nkey == (m.ch, m.note)) with
        | none =>
          have hn : nextOpens m opens = opens := by simp [nextOpens, hoff, hk', hf]
          rw [hn] at hnext
          simp only [Option.map_none]
          exact ih opens hnext hvel' ho
        | some o =>
          have hn : nextOpens m opens = opens.filter (fun x => x.nkey != (m.ch, m.note)) := by
            simp [nextOpens, hoff, hk', hf]
          rw [hn] at hnext
          simp only [Option.map_some, List.map_cons]
          rw [filter_fm m.ch m.note opens ho (hc (Or.inr hoff)),
            ih (opens.filter (fun x => x.nkey != (m.ch, m.note))) hnext hvel'
              (fun o ho' => ho o (List.mem_filter.1 ho').1)]
          rfl
      · have e : (m :: ms).filterMap noteOf = ms.filterMap noteOf := by simp [noteOf, hon, hoff]
        have hn : nextOpens m opens = opens := by simp [nextOpens, hon, hoff]
        rw [hn] at hnext
        rw [e, notesGo_cons_other m hon hoff]
        exact ih opens hnext hvel' ho

/-! ## `Compat` from well-formedness with and without the channel -/

/-- the state of key `k` / of pitch `p` given the waiting note-ons -/
def stK (k : Int × Int) (opens : List Msg) : Option Int := (opens.find? (fun o => o.nkey == k)).map (·.time)
def stM (p : Int) (opens : List Msg) : Option Int := (opens.find? (fun o => o.note == p)).map (·.time)
def PitchDistinct (opens : List Msg) : Prop := opens.Pairwise (fun a b => a.note ≠ b.note)

theorem find_note_filter (opens : List Msg) (k : Int × Int) (p' : Int) (h : k.2 ≠ p') :
    (opens.filter (fun o => o.nkey != k)).find? (fun o => o.note == p') = opens.find? (fun o => o.note == p') := by
  rw [List.find?_filter]
  congr 1
  funext o
  by_cases ho : o.note = p'
  · have : o.nkey ≠ k := by
      intro e; apply h; rw [← e]; exact ho
    simp [ho, this]
  · simp [ho]

theorem compat_of_good : ∀ (L opens : List Msg), PitchDistinct opens → (∀ k, goodFrom k (stK k opens) L) →
    (∀ p, goodFrom (0, p) (stM p opens) (mono L)) → Compat L opens := by
  intro L
  induction L with
  | nil => intro _ _ _ _; trivial
  | cons m ms ih =>
    intro opens hpd hK hM
    have hmono : ∀ p' ty, m.note ≠ p' → ¬((mono1 m).nkey = (0, p') ∧ (mono1 m).ty = ty) := by
      intro p' ty hne hh
      exact hne (Prod.mk.inj hh.1).2
    by_cases hon : m.ty = .noteOn
    · have hMp := hM m.note
      rw [mono_cons, goodFrom_cons_on (k := (0, m.note)) (m := mono1 m) ⟨rfl, hon⟩] at hMp
      have hnone : ∀ o ∈ opens, o.note ≠ m.note := by
        have h1 := hMp.1
        simp only [stM, Option.map_eq_none_iff] at h1
        intro o ho
        have := List.find?_eq_none.1 h1 o ho
        simpa using this
      have hn : nextOpens m opens = m :: opens.filter (fun o => o.nkey != m.nkey) := by simp [nextOpens, hon]
      refine ⟨fun _ o ho hop => absurd hop (hnone o ho), ?_⟩
      rw [hn]
      apply ih
      · exact List.pairwise_cons.2 ⟨fun a ha => Ne.symm (hnone a (List.mem_filter.1 ha).1), hpd.filter _⟩
      · intro k
        by_cases hk : m.nkey = k
        · have : stK k (m :: opens.filter (fun o => o.nkey != m.nkey)) = some m.time := by simp [stK, hk]
          rw [this]
          exact ((goodFrom_cons_on ⟨hk, hon⟩ ms _).1 (hK k)).2
        · have : stK k (m :: opens.filter (fun o => o.nkey != m.nkey)) = stK k opens := by
            unfold stK
            rw [List.find?_cons_of_neg (by simpa using hk), MergeL.find_filter_ne _ _ (Ne.symm hk)]
          rw [this]
          exact (goodFrom_cons_other (fun hh => hk hh.1) (fun hh => hk hh.1) ms _).1 (hK k)
      · intro p'
        by_cases hp : m.note = p'
        · subst hp
          have : stM m.note (m :: opens.filter (fun o => o.nkey != m.nkey)) = some m.time := by simp [stM]
          rw [this]
          exact hMp.2
        · have : stM p' (m :: opens.filter (fun o => o.nkey != m.nkey)) = stM p' opens := by
            unfold stM
            rw [List.find?_cons_of_neg (by simpa using hp), find_note_filter opens m.nkey p' hp]
          rw [this]
          have := hM p'
          rw [mono_cons, goodFrom_cons_other (hmono p' _ hp) (hmono p' _ hp)] at this
          exact this
    · by_cases hoff : m.ty = .noteOff
      · have hKm := hK m.nkey
        rw [goodFrom_cons_off ⟨rfl, hoff⟩] at hKm
        obtain ⟨⟨t0, e0, hlt⟩, gK⟩ := hKm
        cases hf : opens.find? (fun o => o.nkey == m.nkey) with
        | none => simp [stK, hf] at e0
        | some x =>
          have hx := List.mem_of_find?_eq_some hf
          have hxk : x.nkey = m.nkey := by simpa using List.find?_some hf
          have hxn : x.note = m.note := (Prod.mk.inj hxk).2
          have huniq : ∀ o ∈ opens, o.note = m.note → o = x := by
            intro o ho hop
            rcases NotesBL.pairwise_mem hpd ho hx with h | h | h
            · exact h
            · exact absurd (hop.trans hxn.symm) h
            · exact absurd (hxn.trans hop.symm) h
          have hn : nextOpens m opens = opens.filter (fun x => x.nkey != m.nkey) := by
            simp [nextOpens, hoff, hf]
          refine ⟨fun _ o ho hop => by rw [huniq o ho hop]; exact (Prod.mk.inj hxk).1, ?_⟩
          rw [hn]
          apply ih
          · exact hpd.filter _
          · intro k
            by_cases hk : m.nkey = k
            · subst hk
              have : stK m.nkey (opens.filter (fun x => x.nkey != m.nkey)) = none := by
                simp only [stK, MergeL.find_filter_self, Option.map_none]
              rw [this]; exact gK
            · have : stK k (opens.filter (fun x => x.nkey != m.nkey)) = stK k opens := by
                unfold stK
                rw [MergeL.find_filter_ne _ _ (Ne.symm hk)]
              rw [this]
              exact (goodFrom_cons_other (fun hh => hk hh.1) (fun hh => hk hh.1) ms _).1 (hK k)
          · intro p'
            by_cases hp : m.note = p'
            · subst hp
              have : stM m.note (opens.filter (fun x => x.nkey != m.nkey)) = none := by
                simp only [stM, Option.map_eq_none_iff, List.find?_eq_none]
                intro o ho
                obtain ⟨ho1, ho2⟩ := List.mem_filter.1 ho
                intro hop
                have := huniq o ho1 (by simpa using hop)
                subst this
                simp [hxk] at ho2
              rw [this]
              have := hM m.note
              rw [mono_cons, goodFrom_cons_off (k := (0, m.note)) (m := mono1 m) ⟨rfl, hoff⟩] at this
              exact this.2
            · have : stM p' (opens.filter (fun x => x.nkey != m.nkey)) = stM p' opens := by
                unfold stM
                rw [find_note_filter opens m.nkey p' hp]
              rw [this]
              have := hM p'
              rw [mono_cons, goodFrom_cons_other (hmono p' _ hp) (hmono p' _ hp)] at this
              exact this
      · have hn : nextOpens m opens = opens := by simp [nextOpens, hon, hoff]
        refine ⟨fun h => by rcases h with h | h <;> contradiction, ?_⟩
        rw [hn]
        apply ih _ hpd
        · intro k
          exact (goodFrom_cons_other (fun hh => hon hh.2) (fun hh => hoff hh.2) ms _).1 (hK k)
        · intro p'
          have := hM p'
          rw [mono_cons, goodFrom_cons_other (m := mono1 m) (fun hh => hon hh.2) (fun hh => hoff hh.2)] at this
          exact this

/-- **notes through save and load**: when the list is well-formed with notes of positive length both with and
    without its channels, the notes of the loaded track are the notes of the list, relabelled to channel 0 -/
theorem notesOf_noteOf (E : List Msg) (hK : ∀ k, goodFrom k none E) (hM : ∀ k, goodFrom k none (mono E))
    (hvel : ∀ m ∈ E, m.ty = .noteOn → m.vel ≠ pyNone) :
    notesOf (E.filterMap noteOf) = (notesOf E).map (fun n => { n with ch := 0 }) := by
  have hc := compat_of_good E [] List.Pairwise.nil (fun k => hK k) (fun p => hM (0, p))
  have := notesGo_noteOf' E [] hc hvel (by simp)
  simpa [notesOf] using this

/-! ## the per-key invariant gives `WF` and positive lengths back -/

theorem alt_of_good (k : Int × Int) : ∀ (l : List Msg) (o : Option Int), goodFrom k o l → altFrom k o.isSome l := by
  intro l
  induction l with
  | nil => intro o h; simp only [goodFrom] at h; subst h; simp [altFrom]
  | cons m ms ih =>
    intro o hg
    rcases cases3 k m with h | h | ⟨h1, h2⟩
    · rw [goodFrom_cons_on h] at hg
      simp only [altFrom, h, and_self, if_true]
      obtain ⟨ho, hg⟩ := hg
      subst ho
      exact ⟨rfl, ih _ hg⟩
    · rw [goodFrom_cons_off h] at hg
      obtain ⟨⟨t0, ho, _⟩, hg⟩ := hg
      subst ho
      simp only [altFrom, h, and_self, if_true]
      exact ⟨rfl, ih _ hg⟩
    · rw [goodFrom_cons_other h1 h2] at hg
      simp only [altFrom, h1, h2, if_false]
      exact ih _ hg

theorem wf_of_good (x : List Msg) (hg : ∀ k, goodFrom k none x) : WF x := fun k => alt_of_good k x none (hg k)

theorem good_unpair (k : Int × Int) : ∀ P : List (Msg × Msg), (∀ p ∈ P, NotesBL.GoodPair k p) →
    goodFrom k none (NotesBL.unpair P) → ∀ p ∈ P, p.1.time < p.2.time := by
  intro P
  induction P with
  | nil => intro _ _ p hp; cases hp
  | cons q P ih =>
    intro hgp hg p hp
    have g := hgp q List.mem_cons_self
    rw [NotesBL.unpair_cons, goodFrom_cons_on ⟨g.k1, g.on⟩, goodFrom_cons_off ⟨g.k2, g.off⟩] at hg
    obtain ⟨_, ⟨t0, e0, hlt⟩, hrest⟩ := hg
    cases e0
    rcases List.mem_cons.1 hp with rfl | hp
    · exact hlt
    · exact ih (fun r hr => hgp r (List.mem_cons_of_mem _ hr)) hrest p hp

theorem posDur_of_good (x : List Msg) (hg : ∀ k, goodFrom k none x) : ∀ n ∈ notesOf x, n.on < n.off := by
  intro n hn
  obtain ⟨P, h1, h2, h3⟩ := NotesBL.key_view x (wf_of_good x hg) (n.ch, n.pitch)
  have hgk := NotesBL.goodFrom_filter (n.ch, n.pitch) x none (hg _)
  rw [h1] at hgk
  have hmem : n ∈ P.map NotesL.mkNote := by
    rw [← h3]; exact NotesBL.mem_notes_key.2 ⟨hn, rfl⟩
  obtain ⟨p, hp, rfl⟩ := List.mem_map.1 hmem
  exact good_unpair _ P h2 hgk p hp

/-! ## sounding through save and load -/

theorem sounding_proj (x y : List Msg) (k : Int × Int) (t : Int) (h : P k x = P k y) :
    SoundingAt x k t ↔ SoundingAt y k t := by
  rw [NotesBL.sounding_key x, NotesBL.sounding_key y]
  unfold P at h
  rw [h]

/-- the loaded track sounds pitch `p` (on channel 0) exactly when the list sounds it on some channel -/
theorem sounding_noteOf (E : List Msg) (hs : Sorted E) (hsN : Sorted (E.filterMap noteOf))
    (hK : ∀ k, goodFrom k none E) (hM : ∀ k, goodFrom k none (mono E))
    (hvel : ∀ m ∈ E, m.ty = .noteOn → m.vel ≠ pyNone) (p t : Int) :
    SoundingAt (E.filterMap noteOf) (0, p) t ↔ ∃ c, SoundingAt E (c, p) t := by
  have hN : ∀ k, goodFrom k none (E.filterMap noteOf) := fun k => good_noteOf k E none (hM k)
  rw [NotesBL.notes_cover _ (wf_of_good _ hN) hsN, notesOf_noteOf E hK hM hvel]
  constructor
  · rintro ⟨n, hn, hk, h1, h2⟩
    obtain ⟨n0, hn0, rfl⟩ := List.mem_map.1 hn
    refine ⟨n0.ch, (NotesBL.notes_cover E (wf_of_good E hK) hs _ t).2 ⟨n0, hn0, ?_, h1, h2⟩⟩
    simp only [NotesBL.nkeyN, Prod.mk.injEq] at hk ⊢
    simp [hk.2]
  · rintro ⟨c, hc⟩
    obtain ⟨n0, hn0, hk, h1, h2⟩ := (NotesBL.notes_cover E (wf_of_good E hK) hs _ t).1 hc
    refine ⟨{ n0 with ch := 0 }, List.mem_map.2 ⟨n0, hn0, rfl⟩, ?_, h1, h2⟩
    simp only [NotesBL.nkeyN, Prod.mk.injEq] at hk ⊢
    simp [hk.2]

/-! ## the saved track and the per-key projections of the loaded sequence -/

/-- one saved sequence, as a loaded track at the same resolution (`E2E.saved_track` / `saved_keyOK` without the
    one-channel hypothesis: all that is needed is that the loaded track is well-formed per key) -/
theorem track_ga (pp : Int) (hp : 0 < pp) (r : List Msg) (hok : OkRel r)
    (hn : ∀ m ∈ r, m.ty ≠ .wait → m.time = pyNone)
    (hg : ∀ k, goodFrom k none ((eventsRel r).filterMap noteOf)) :
    (∀ e ∈ toMido r, 0 ≤ e.time) ∧ curMsgs pp pp 0 (toMido r) = (eventsRel r).filterMap noteOf
      ∧ GA (curMsgs pp pp 0 (toMido r)) ∧ KeyOK (fun k => P k (curMsgs pp pp 0 (toMido r))) := by
  have hd : ∀ e ∈ toMido r, 0 ≤ e.time := toMidoGo_nonneg r hok.1 hn 0 (Int.le_refl _)
  have heq := curMsgs_toMido pp hp r hn hok.1
  have hga : GA (curMsgs pp pp 0 (toMido r)) :=
    ⟨(curMsgs_okAbs pp pp hp hp 0 (Int.le_refl _) _ hd).1, by rw [heq]; exact fun k => cg_of_good k _ (hg k)⟩
  exact ⟨hd, heq, hga, keyOK_of_good _ (ga_sorted hga) (by rw [heq]; exact hg)⟩

/-- `L2.saved_proj` for multi-channel saved sequences: the per-key note events of loaded sequence `i` are those of
    the saved sequence with the channels forgotten -/
theorem saved_proj' (pp : Int) (hp : 0 < pp) (rels : List (List Msg))
    (hS : ∀ r ∈ rels, OkRel r ∧ (∀ m ∈ r, m.ty ≠ .wait → m.time = pyNone)
      ∧ ∀ k, goodFrom k none ((eventsRel r).filterMap noteOf))
    (out : List Seq)
    (h : convert pp pp (rels.map toMido) ((List.range rels.length).map (fun i => [i])) (List.range rels.length) 0
      = .ok out)
    (i : Nat) (r : List Msg) (s s' : Seq) (a : List Msg) (hr : rels[i]? = some r) (ho : out[i]? = some s)
    (ha : s.readAbs = Except.ok (s', a)) :
    ∀ k, P k a = P k ((eventsRel r).filterMap noteOf) := by
  have hnd : ((List.range rels.length).map (fun i => [i])).flatten.Nodup := by
    rw [range_groups_flatten]; exact List.nodup_range
  have hd : ∀ evs ∈ rels.map toMido, ∀ e ∈ evs, 0 ≤ e.time := by
    intro evs hevs
    obtain ⟨r, hr, rfl⟩ := List.mem_map.1 hevs
    obtain ⟨h1, h2, h3⟩ := hS r hr
    exact (track_ga pp hp r h1 h2 h3).1
  obtain ⟨s0, M, _, _, hM, _, gt, hgt, hout⟩ := convert_shape pp pp hp hp _ _ _ 0 out hnd hd h
  have hi : i < rels.length := by
    rcases Nat.lt_or_ge i rels.length with h | h
    · exact h
    · rw [List.getElem?_eq_none h] at hr; simp at hr
  obtain ⟨h1, h2, h3⟩ := hS r (List.mem_of_getElem? hr)
  have hslot : slotA pp pp (rels.map toMido) i = curMsgs pp pp 0 (toMido r) := by
    have : rels[i] = r := by
      have := List.getElem?_eq_getElem hi
      rw [hr] at this; exact (Option.some.inj this).symm
    simp [slotA, hi, this]
  obtain ⟨_, heq, hga, hY⟩ := track_ga pp hp r h1 h2 h3
  rw [hout] at ho
  have hrel : (gmerge (slotA pp pp (rels.map toMido)) [i]).rel = C15.mergeRel [V (curMsgs pp pp 0 (toMido r))] := by
    rw [gmerge_rel, ← hslot]; rfl
  obtain ⟨q1, q2⟩ := single_proj _ M hga hY hM s0.defCh
  intro k
  rw [← heq]
  rcases out_abs _ _ 0 s0.defCh M gt hgt i [i] (groups_range_get _ i hi) s s' a ho ha with ⟨_, e⟩ | ⟨_, e⟩
  · rw [e, hrel]; exact q1 k
  · rw [e, hrel]; exact q2 k

/-- the channel of a note is the channel of a note-on of the list (or of a waiting note-on) -/
theorem notesGo_ch : ∀ (l os : List Msg), ∀ n ∈ notesGo l os,
    (∃ o ∈ l, o.ty = .noteOn ∧ n.ch = o.ch) ∨ ∃ o ∈ os, n.ch = o.ch := by
  intro l
  induction l with
  | nil => intro os n hn; simp [notesGo] at hn
  | cons m ms ih =>
    intro os n hn
    have lift : ∀ os', n ∈ notesGo ms os' → (∀ o ∈ os', o ∈ os ∨ (o = m ∧ m.ty = .noteOn)) →
        (∃ o ∈ m :: ms, o.ty = .noteOn ∧ n.ch = o.ch) ∨ ∃ o ∈ os, n.ch = o.ch := by
      intro os' hn' hsub
      rcases ih os' n hn' with ⟨o, ho, h⟩ | ⟨o, ho, h⟩
      · exact Or.inl ⟨o, List.mem_cons_of_mem _ ho, h⟩
      · rcases hsub o ho with h' | ⟨rfl, h'⟩
        · exact Or.inr ⟨o, h', h⟩
        · exact Or.inl ⟨o, List.mem_cons_self, h', h⟩
    by_cases hon : m.ty = .noteOn
    · rw [notesGo_on hon] at hn
      apply lift _ hn
      intro o ho
      rcases List.mem_cons.1 ho with rfl | ho
      · exact Or.inr ⟨rfl, hon⟩
      · exact Or.inl (List.mem_filter.1 ho).1
    · by_cases hoff : m.ty = .noteOff
      · cases hf : os.find? (fun o => o.nkey == m.nkey) with
        | none =>
          rw [notesGo_off_none hoff ms os hf] at hn
          exact lift _ hn (fun o ho => Or.inl ho)
        | some x =>
          rw [notesGo_off_some hoff ms os hf] at hn
          rcases List.mem_cons.1 hn with rfl | hn
          · exact Or.inr ⟨x, List.mem_of_find?_eq_some hf, rfl⟩
          · exact lift _ hn (fun o ho => Or.inl (List.mem_filter.1 ho).1)
      · rw [notesGo_other hon hoff] at hn
        exact lift _ hn (fun o ho => Or.inl ho)

/-- notes on one channel are trivially channel-separated -/
theorem chanSep_oneCh (E : List Msg) (c0 : Int) (h : ∀ m ∈ E, m.ty = .noteOn → m.ch = c0) : ChanSep (notesOf E) := by
  intro n hn n' hn' _ hne
  exfalso
  apply hne
  have key : ∀ x ∈ notesOf E, x.ch = c0 := by
    intro x hx
    rcases notesGo_ch E [] x hx with ⟨o, ho, hty, hch⟩ | ⟨o, ho, _⟩
    · rw [hch]; exact h o ho hty
    · cases ho
  rw [key n hn, key n' hn']

/-- `E2E.note_ons_core` for multi-channel saved sequences: the note-ons of loaded sequence `i` are those of saved
    sequence `i` (pitch, tick, velocity) -/
theorem note_ons_core' (pp : Int) (hp : 0 < pp) (rels : List (List Msg))
    (hS : ∀ r ∈ rels, OkRel r ∧ (∀ m ∈ r, m.ty ≠ .wait → m.time = pyNone)
      ∧ ∀ k, goodFrom k none ((eventsRel r).filterMap noteOf))
    (hV : ∀ r ∈ rels, ∀ m ∈ r, m.ty = .noteOn → m.vel ≠ pyNone)
    (out : List Seq)
    (h : convert pp pp (rels.map toMido) ((List.range rels.length).map (fun i => [i])) (List.range rels.length) 0
      = .ok out)
    (i : Nat) (r : List Msg) (s s' : Seq) (a : List Msg) (hr : rels[i]? = some r) (ho : out[i]? = some s)
    (ha : s.readAbs = Except.ok (s', a)) (p t v : Int) :
    (∃ m ∈ eventsAbs a, m.ty = .noteOn ∧ m.note = p ∧ m.time = t ∧ m.vel = v) ↔
    (∃ m ∈ eventsRel r, m.ty = .noteOn ∧ m.note = p ∧ m.time = t ∧ m.vel = v) := by
  have hproj := saved_proj' pp hp rels hS out h i r s s' a hr ho ha
  have hvel := hV r (List.mem_of_getElem? hr)
  have hmem : ∀ m, m.ty = .noteOn → (m ∈ eventsAbs a ↔ m ∈ (eventsRel r).filterMap noteOf) := by
    intro m hm
    rw [noteOn_mem_of_proj a _ hproj m hm]
  constructor
  · rintro ⟨m, hm, hon, hnote, htime, hv⟩
    obtain ⟨m0, hm0, hn0⟩ := List.mem_filterMap.1 ((hmem m hon).1 hm)
    have hon0 : m0.ty = .noteOn := by
      unfold noteOf at hn0
      split at hn0
      · assumption
      · split at hn0
        · simp at hn0; subst hn0; simp [Msg.mkOff] at hon
        · simp at hn0
    obtain ⟨src, hsrc, ts, hts⟩ := eventsRelGo_src r 0 m0 hm0
    have hv0 : m0.vel ≠ pyNone := by
      have := hvel src hsrc (by rw [hts] at hon0; exact hon0)
      rw [hts]; exact this
    simp only [noteOf, hon0, if_true, Option.some.injEq] at hn0
    subst hn0
    refine ⟨m0, hm0, hon0, ?_, ?_, ?_⟩
    · simpa [Msg.mkOn] using hnote
    · simpa [Msg.mkOn] using htime
    · simpa [Msg.mkOn, hv0] using hv
  · rintro ⟨m0, hm0, hon0, hnote, htime, hv⟩
    obtain ⟨src, hsrc, ts, hts⟩ := eventsRelGo_src r 0 m0 hm0
    have hv0 : m0.vel ≠ pyNone := by
      have := hvel src hsrc (by rw [hts] at hon0; exact hon0)
      rw [hts]; exact this
    refine ⟨Msg.mkOn 0 m0.note m0.vel m0.time, ?_, rfl, hnote, htime, hv⟩
    rw [hmem _ rfl]
    exact List.mem_filterMap.2 ⟨m0, hm0, by simp [noteOf, hon0, hv0]⟩

end SCoda.C12NarrowL
