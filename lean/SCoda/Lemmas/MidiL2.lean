/-
  Helper lemmas for `Props/C13b.lean` (audit items A7 / A8): `convert` in closed form for ARBITRARY
  track groupings (overlapping groups, repeated indices), with the exact content of the meta sequence.
  * `Slots`: the slot `(gi, pos)` of the conversion state, as a relation (no `Nodup` needed);
  * `tracksG`: after all tracks, slot `(gi, pos)` holds the messages of track `groups[gi][pos]` iff that
    slot is the track's FIRST occurrence in the grouping (else it is empty); the meta sequence is the
    `insort`-fold of the considered tracks' meta messages, in track order;
  * `latestL_foldl_insort`: the event in force does not depend on the `insort` order;
  * `inforce_load`: the signature in force on the loaded meta target.
-/
import SCoda.Lemmas.MidiE2Eb
import SCoda.Lemmas.NotesL
namespace SCoda.L2
open SCoda SCoda.MidiL SCoda.MergeL SCoda.C13 SCoda.EQ SCoda.E2E

/-! ## slots, without `Nodup` -/

/-- the conversion state mirrors the grouping: slot `(gi, pos)` is `Seq.ofAbs (S gi pos)` -/
def Slots (seqs : List (List Seq)) (groups : List (List Nat)) (S : Nat → Nat → List Msg) : Prop :=
  seqs.length = groups.length ∧
  ∀ gi g, groups[gi]? = some g → ∃ row, seqs[gi]? = some row ∧ row.length = g.length ∧
    ∀ pos, pos < g.length → row[pos]? = some (Seq.ofAbs (S gi pos))

theorem slots_init (groups : List (List Nat)) :
    Slots (groups.map (fun g => g.map (fun _ => Seq.new))) groups (fun _ _ => []) := by
  refine ⟨by simp, ?_⟩
  intro gi g hg
  refine ⟨g.map (fun _ => Seq.new), by simp [hg], by simp, ?_⟩
  intro pos hpos
  simp [hpos]
  rfl

theorem slots_congr {seqs : List (List Seq)} {groups : List (List Nat)} {S S' : Nat → Nat → List Msg}
    (h : Slots seqs groups S) (he : ∀ gi g pos, groups[gi]? = some g → pos < g.length → S gi pos = S' gi pos) :
    Slots seqs groups S' := by
  refine ⟨h.1, ?_⟩
  intro gi g hg
  obtain ⟨row, h1, h2, h3⟩ := h.2 gi g hg
  exact ⟨row, h1, h2, fun pos hpos => by rw [h3 pos hpos, he gi g pos hg hpos]⟩

theorem addCur_slotsG (groups : List (List Nat)) (s : ConvSt) (S : Nat → Nat → List Msg)
    (hs : Slots s.seqs groups S) (gi pos : Nat) (g : List Nat) (hg : groups[gi]? = some g)
    (hpos : pos < g.length) (m : Msg) :
    ∃ s', s.addCur (some (gi, pos)) m = .ok s' ∧ s'.metaSeq = s.metaSeq ∧ s'.defCh = s.defCh ∧
      Slots s'.seqs groups (fun a b => if a = gi ∧ b = pos then insort (S gi pos) m else S a b) := by
  obtain ⟨row, hr1, hr2, hr3⟩ := hs.2 gi g hg
  have hl : (s.seqs[gi]?.bind (·[pos]?)) = some (Seq.ofAbs (S gi pos)) := by
    simp [hr1, hr3 pos hpos]
  refine ⟨{ s with seqs := modifyAt (fun g' => modifyAt (fun _ => Seq.ofAbs (insort (S gi pos) m)) pos g') gi s.seqs },
    ?_, rfl, rfl, ?_⟩
  · unfold ConvSt.addCur
    simp only [hl, addAbsMsg_ofAbs, bind, Except.bind]
  · refine ⟨by simp [MidiL.length_modifyAt, hs.1], ?_⟩
    intro a ga hga
    obtain ⟨rowa, ha1, ha2, ha3⟩ := hs.2 a ga hga
    simp only [getElem?_modifyAt]
    by_cases hag : a = gi
    · subst hag
      rw [hg] at hga; cases hga
      rw [hr1] at ha1; cases ha1
      refine ⟨modifyAt (fun _ => Seq.ofAbs (insort (S a pos) m)) pos row, by simp [hr1],
        by simp [MidiL.length_modifyAt, hr2], ?_⟩
      intro b hb
      rw [getElem?_modifyAt]
      by_cases hbp : b = pos
      · subst hbp; simp [hr3 b hb]
      · simp [hbp, hr3 b hb]
    · refine ⟨rowa, by simp [hag, ha1], ha2, ?_⟩
      intro b hb
      simp [hag, ha3 b hb]

/-- every message a track outside every group (but listed as a meta track) sends to the meta sequence:
    signatures and control changes, and its program changes too (`current_sequence = meta_sequence`) -/
def nonMsgs (ppqn filePpq : Int) : Int → List MidiEv → List Msg
  | _, [] => []
  | ticks, e :: es =>
    let t := ticks + e.time
    match convEvent false e (roundHalfEven (exactPos ppqn filePpq t)) with
    | some (_, m) => m :: nonMsgs ppqn filePpq t es
    | Option.none => nonMsgs ppqn filePpq t es

theorem metaOk_foldl (L : List Msg) : ∀ M, MetaOk M →
    (∀ m ∈ L, 0 ≤ m.time ∧ m.ty ≠ .wait ∧ m.ty ≠ .noteOn ∧ m.ty ≠ .noteOff) → MetaOk (L.foldl insort M) := by
  induction L with
  | nil => intro M h _; exact h
  | cons x xs ih =>
    intro M h hL
    obtain ⟨h0, hw, hn⟩ := hL x List.mem_cons_self
    exact ih _ (metaOk_insort M x h h0 hw hn) (fun y hy => hL y (List.mem_cons_of_mem _ hy))

/-- a grouped track: its note messages go to its slot, the rest to the meta sequence, both in order -/
theorem inner_someG (ppqn filePpq : Int) (hp : 0 < ppqn) (hf : 0 < filePpq) (groups : List (List Nat))
    (gi pos : Nat) (g : List Nat) (hg : groups[gi]? = some g) (hpos : pos < g.length) (evs : List MidiEv) :
    ∀ (ticks : Int) (s : ConvSt) (S : Nat → Nat → List Msg) (M : List Msg), 0 ≤ ticks → (∀ e ∈ evs, 0 ≤ e.time) →
      Slots s.seqs groups S → s.metaSeq = Seq.ofAbs M → MetaOk M →
      ∃ s' t' S', foldlM' (convMsg ppqn filePpq (some (gi, pos))) (s, ticks) evs = .ok (s', t')
        ∧ Slots s'.seqs groups S' ∧ S' gi pos = (curMsgs ppqn filePpq ticks evs).foldl insort (S gi pos)
        ∧ (∀ a b, ¬(a = gi ∧ b = pos) → S' a b = S a b)
        ∧ s'.metaSeq = Seq.ofAbs ((metMsgs ppqn filePpq true ticks evs).foldl insort M)
        ∧ MetaOk ((metMsgs ppqn filePpq true ticks evs).foldl insort M) := by
  induction evs with
  | nil =>
    intro ticks s S M _ _ hs hm hM
    exact ⟨s, ticks, S, rfl, hs, rfl, fun _ _ _ => rfl, hm, hM⟩
  | cons e es ih =>
    intro ticks s S M ht hd hs hm hM
    have he := hd e List.mem_cons_self
    have hd' : ∀ x ∈ es, 0 ≤ x.time := fun x hx => hd x (List.mem_cons_of_mem _ hx)
    have ht' : 0 ≤ ticks + e.time := by omega
    generalize hs1 : withDefCh s e = s1
    have hs1s : s1.seqs = s.seqs := by subst hs1; rfl
    have hs1m : s1.metaSeq = Seq.ofAbs M := by subst hs1; exact hm
    cases hce : convEvent true e (roundHalfEven (exactPos ppqn filePpq (ticks + e.time))) with
    | none =>
      have hstep : convMsg ppqn filePpq (some (gi, pos)) (s, ticks) e = .ok (s1, ticks + e.time) := by
        rw [convMsg_eq, Option.isSome_some, hce, hs1]
      obtain ⟨s', t', S', h1, h2, h3, h4, h5, h6⟩ := ih (ticks + e.time) s1 S M ht' hd' (hs1s ▸ hs) hs1m hM
      refine ⟨s', t', S', ?_, h2, ?_, h4, ?_, ?_⟩
      · simp only [foldlM', hstep, h1]
      · rw [h3]; simp only [curMsgs, hce]
      · rw [h5]; simp only [metMsgs, hce]
      · simpa only [metMsgs, hce] using h6
    | some dm =>
      obtain ⟨d, msg⟩ := dm
      cases d with
      | true =>
        obtain ⟨hmt, hmty⟩ := convEvent_meta _ _ _ _ hce
        have hadd := addMeta_ofAbs s1 M hs1m msg
        have hstep : convMsg ppqn filePpq (some (gi, pos)) (s, ticks) e
            = .ok ({ s1 with metaSeq := Seq.ofAbs (insort M msg) }, ticks + e.time) := by
          rw [convMsg_eq, Option.isSome_some, hce]
          simp only [hs1, hadd]
        have hM' : MetaOk (insort M msg) := by
          apply metaOk_insort M msg hM
          · rw [hmt]; exact exactPos_nonneg ppqn filePpq hp hf _ ht'
          · rcases hmty with h | h | h <;> simp [h]
          · rcases hmty with h | h | h <;> simp [h]
        obtain ⟨s', t', S', h1, h2, h3, h4, h5, h6⟩ :=
          ih (ticks + e.time) { s1 with metaSeq := Seq.ofAbs (insort M msg) } S (insort M msg) ht' hd'
            (hs1s ▸ hs) rfl hM'
        refine ⟨s', t', S', ?_, h2, ?_, h4, ?_, ?_⟩
        · simp only [foldlM', hstep, h1]
        · rw [h3]; simp only [curMsgs, hce]
        · rw [h5]; simp only [metMsgs, hce, List.foldl_cons]
        · simpa only [metMsgs, hce, List.foldl_cons] using h6
      | false =>
        obtain ⟨s2, hadd, hm2, _, hsl2⟩ := addCur_slotsG groups s1 S (hs1s ▸ hs) gi pos g hg hpos msg
        have hstep : convMsg ppqn filePpq (some (gi, pos)) (s, ticks) e = .ok (s2, ticks + e.time) := by
          rw [convMsg_eq, Option.isSome_some, hce]
          simp only [hs1, hadd]
        obtain ⟨s', t', S', h1, h2, h3, h4, h5, h6⟩ :=
          ih (ticks + e.time) s2 _ M ht' hd' hsl2 (hm2.trans hs1m) hM
        refine ⟨s', t', S', ?_, h2, ?_, ?_, ?_, ?_⟩
        · simp only [foldlM', hstep, h1]
        · rw [h3]; simp only [curMsgs, hce, List.foldl_cons, and_self, if_true]
        · intro a b hab; rw [h4 a b hab]; simp only [hab, if_false]
        · rw [h5]; simp only [metMsgs, hce]
        · simpa only [metMsgs, hce] using h6

/-- a meta-only track: every message it produces goes to the meta sequence, in order -/
theorem inner_noneG (ppqn filePpq : Int) (hp : 0 < ppqn) (hf : 0 < filePpq) (evs : List MidiEv) :
    ∀ (ticks : Int) (s : ConvSt) (M : List Msg), 0 ≤ ticks → (∀ e ∈ evs, 0 ≤ e.time) →
      s.metaSeq = Seq.ofAbs M → MetaOk M →
      ∃ s' t', foldlM' (convMsg ppqn filePpq Option.none) (s, ticks) evs = .ok (s', t')
        ∧ s'.seqs = s.seqs ∧ s'.metaSeq = Seq.ofAbs ((nonMsgs ppqn filePpq ticks evs).foldl insort M)
        ∧ MetaOk ((nonMsgs ppqn filePpq ticks evs).foldl insort M) := by
  induction evs with
  | nil =>
    intro ticks s M _ _ hm hM
    exact ⟨s, ticks, rfl, rfl, hm, hM⟩
  | cons e es ih =>
    intro ticks s M ht hd hm hM
    have he := hd e List.mem_cons_self
    have hd' : ∀ x ∈ es, 0 ≤ x.time := fun x hx => hd x (List.mem_cons_of_mem _ hx)
    have ht' : 0 ≤ ticks + e.time := by omega
    generalize hs1 : withDefCh s e = s1
    have hs1s : s1.seqs = s.seqs := by subst hs1; rfl
    have hs1m : s1.metaSeq = Seq.ofAbs M := by subst hs1; exact hm
    cases hce : convEvent false e (roundHalfEven (exactPos ppqn filePpq (ticks + e.time))) with
    | none =>
      have hstep : convMsg ppqn filePpq Option.none (s, ticks) e = .ok (s1, ticks + e.time) := by
        rw [convMsg_eq, Option.isSome_none, hce, hs1]
      obtain ⟨s', t', h1, h2, h3, h4⟩ := ih (ticks + e.time) s1 M ht' hd' hs1m hM
      refine ⟨s', t', by simp only [foldlM', hstep, h1], h2.trans hs1s, ?_, ?_⟩
      · rw [h3]; simp only [nonMsgs, hce]
      · simpa only [nonMsgs, hce] using h4
    | some dm =>
      obtain ⟨d, msg⟩ := dm
      obtain ⟨hmt, hw, hn⟩ := convEvent_false_notes _ _ _ _ hce
      have hadd := addMeta_ofAbs s1 M hs1m msg
      have hstep : convMsg ppqn filePpq Option.none (s, ticks) e
          = .ok ({ s1 with metaSeq := Seq.ofAbs (insort M msg) }, ticks + e.time) := by
        rw [convMsg_eq, Option.isSome_none, hce]
        cases d <;> simp only [hs1, hadd, ConvSt.addCur]
      have hM' : MetaOk (insort M msg) := by
        apply metaOk_insort M msg hM _ hw hn
        rw [hmt]; exact exactPos_nonneg ppqn filePpq hp hf _ ht'
      obtain ⟨s', t', h1, h2, h3, h4⟩ :=
        ih (ticks + e.time) { s1 with metaSeq := Seq.ofAbs (insort M msg) } (insort M msg) ht' hd' rfl hM'
      refine ⟨s', t', by simp only [foldlM', hstep, h1], h2.trans hs1s, ?_, ?_⟩
      · rw [h3]; simp only [nonMsgs, hce, List.foldl_cons]
      · simpa only [nonMsgs, hce, List.foldl_cons] using h4


/-! ## all tracks -/

/-- what track `i` (events `evs`) sends to the meta sequence -/
def metaOf (ppqn filePpq : Int) (groups : List (List Nat)) (metaIdx : List Nat) (i : Nat) (evs : List MidiEv) :
    List Msg :=
  match firstGroupOf groups i with
  | some _ => metMsgs ppqn filePpq true 0 evs
  | Option.none => if metaIdx.contains i then nonMsgs ppqn filePpq 0 evs else []

/-- all messages sent to the meta sequence, in the order they are sent -/
def metaAll (ppqn filePpq : Int) (groups : List (List Nat)) (metaIdx : List Nat) (tz : List (List MidiEv × Nat)) :
    List Msg :=
  tz.flatMap (fun p => metaOf ppqn filePpq groups metaIdx p.2 p.1)

/-- the content of slot `(gi, pos)` after the first `n` tracks: the messages of track `groups[gi][pos]`
    if that track has been read and `(gi, pos)` is its first occurrence in the grouping -/
def slotAt (ppqn filePpq : Int) (tracks : List (List MidiEv)) (groups : List (List Nat)) (n gi pos : Nat) : List Msg :=
  match groups[gi]?.bind (·[pos]?) with
  | some i => if i < n ∧ firstGroupOf groups i = some (gi, pos) then slotA ppqn filePpq tracks i else []
  | Option.none => []

theorem slotA_fold (ppqn filePpq : Int) (hp : 0 < ppqn) (hf : 0 < filePpq) (tracks : List (List MidiEv))
    (hd : ∀ evs ∈ tracks, ∀ e ∈ evs, 0 ≤ e.time) (i : Nat) :
    (slotA ppqn filePpq tracks i).foldl insort [] = slotA ppqn filePpq tracks i := by
  apply (curMsgs_okAbs ppqn filePpq hp hf 0 (Int.le_refl _) _ _).2
  intro e he
  cases hti : tracks[i]? with
  | none => simp [hti] at he
  | some evs =>
    simp only [hti, Option.getD_some] at he
    exact hd evs (List.mem_of_getElem? hti) e he

/-- the state after all tracks, for an arbitrary grouping -/
theorem tracksG (ppqn filePpq : Int) (hp : 0 < ppqn) (hf : 0 < filePpq) (tracks : List (List MidiEv))
    (groups : List (List Nat)) (metaIdx : List Nat) (hd : ∀ evs ∈ tracks, ∀ e ∈ evs, 0 ≤ e.time) :
    ∃ s M, foldlM' (convTrack ppqn filePpq groups metaIdx)
        { seqs := groups.map (fun g => g.map (fun _ => Seq.new)) } tracks.zipIdx = .ok s
      ∧ Slots s.seqs groups (slotAt ppqn filePpq tracks groups tracks.length)
      ∧ s.metaSeq = Seq.ofAbs M ∧ MetaOk M
      ∧ M = (metaAll ppqn filePpq groups metaIdx tracks.zipIdx).foldl insort [] := by
  have := foldlM'_idx (convTrack ppqn filePpq groups metaIdx) tracks.zipIdx
    (fun n s => ∃ S M, Slots s.seqs groups S ∧ s.metaSeq = Seq.ofAbs M ∧ MetaOk M
      ∧ M = (metaAll ppqn filePpq groups metaIdx (tracks.zipIdx.take n)).foldl insort []
      ∧ ∀ gi pos, S gi pos = slotAt ppqn filePpq tracks groups n gi pos)
    (by
      intro n hn s ⟨S, M, hs, hm, hM, hMeq, hS⟩
      have hn' : n < tracks.length := by simpa using hn
      have hx : tracks.zipIdx[n] = (tracks[n], n) := by simp
      have hde : ∀ e ∈ tracks[n], 0 ≤ e.time := hd _ (List.getElem_mem hn')
      have htake : metaAll ppqn filePpq groups metaIdx (tracks.zipIdx.take (n + 1))
          = metaAll ppqn filePpq groups metaIdx (tracks.zipIdx.take n)
            ++ metaOf ppqn filePpq groups metaIdx n tracks[n] := by
        unfold metaAll
        rw [List.take_add_one, List.getElem?_eq_getElem hn, hx]
        simp
      rw [hx]
      unfold convTrack
      simp only
      cases hloc : firstGroupOf groups n with
      | none =>
        have hS' : ∀ gi pos, S gi pos = slotAt ppqn filePpq tracks groups (n + 1) gi pos := by
          intro gi pos
          rw [hS gi pos]
          cases hi : groups[gi]?.bind (·[pos]?) with
          | none => simp only [slotAt, hi]
          | some i =>
            simp only [slotAt, hi]
            by_cases hin : i = n
            · subst hin; simp [hloc]
            · have : i < n + 1 ↔ i < n := by omega
              simp only [this]
        by_cases hmeta : n ∈ metaIdx
        · obtain ⟨s', t', h1, h2, h3, h4⟩ := inner_noneG ppqn filePpq hp hf tracks[n] 0 s M (Int.le_refl _) hde hm hM
          refine ⟨s', ?_, S, _, by rw [h2]; exact hs, h3, h4, ?_, hS'⟩
          · simp [hmeta, h1]
          · rw [htake, List.foldl_append, ← hMeq]
            simp [metaOf, hloc, hmeta]
        · refine ⟨s, ?_, S, M, hs, hm, hM, ?_, hS'⟩
          · simp [hmeta]
          · rw [htake, List.foldl_append, ← hMeq]
            simp [metaOf, hloc, hmeta]
      | some loc =>
        obtain ⟨gi0, pos0⟩ := loc
        obtain ⟨g0, hg0, hpos0⟩ := firstGroupOf_some groups n gi0 pos0 hloc
        have hlt0 : pos0 < g0.length := by
          rcases Nat.lt_or_ge pos0 g0.length with h | h
          · exact h
          · rw [List.getElem?_eq_none h] at hpos0; simp at hpos0
        obtain ⟨s', t', S', h1, h2, h3, h4, h5, h6⟩ :=
          inner_someG ppqn filePpq hp hf groups gi0 pos0 g0 hg0 hlt0 tracks[n] 0 s S M (Int.le_refl _) hde hs hm hM
        refine ⟨s', ?_, S', _, h2, h5, h6, ?_, ?_⟩
        · simp [h1]
        · rw [htake, List.foldl_append, ← hMeq]
          simp [metaOf, hloc]
        · intro gi pos
          by_cases hgp : gi = gi0 ∧ pos = pos0
          · obtain ⟨rfl, rfl⟩ := hgp
            rw [h3, hS gi pos]
            have hb : groups[gi]?.bind (·[pos]?) = some n := by simp [hg0, hpos0]
            have e1 : slotAt ppqn filePpq tracks groups n gi pos = [] := by
              simp [slotAt, hb]
            have e2 : slotAt ppqn filePpq tracks groups (n + 1) gi pos = slotA ppqn filePpq tracks n := by
              simp [slotAt, hb, hloc]
            rw [e1, e2]
            have hfi : slotA ppqn filePpq tracks n = curMsgs ppqn filePpq 0 tracks[n] := by simp [slotA, hn']
            rw [← hfi]
            exact slotA_fold ppqn filePpq hp hf tracks hd n
          · rw [h4 gi pos hgp, hS gi pos]
            cases hi : groups[gi]?.bind (·[pos]?) with
            | none => simp only [slotAt, hi]
            | some i =>
              simp only [slotAt, hi]
              by_cases hin : i = n
              · subst hin
                have : ¬ (firstGroupOf groups i = some (gi, pos)) := by
                  rw [hloc]; intro h; simp only [Option.some.injEq, Prod.mk.injEq] at h
                  exact hgp ⟨h.1.symm, h.2.symm⟩
                simp [this]
              · have : i < n + 1 ↔ i < n := by omega
                simp only [this])
    { seqs := groups.map (fun g => g.map (fun _ => Seq.new)) }
    ⟨fun _ _ => [], [], slots_init groups, rfl, metaOk_nil, by simp [metaAll], fun gi pos => by
      cases hi : groups[gi]?.bind (·[pos]?) <;> simp [slotAt, hi]⟩
  obtain ⟨r, hr, S, M, hs, hm, hM, hMeq, hS⟩ := this
  refine ⟨r, M, hr, ?_, hm, hM, ?_⟩
  · simp only [List.length_zipIdx] at hS
    exact slots_congr hs (fun gi g pos _ _ => hS gi pos)
  · rw [hMeq, List.take_of_length_le (Nat.le_refl _)]


/-! ## the groups -/

/-- the lists held by the slots of group `gi` -/
def rowOf (S : Nat → Nat → List Msg) (gi : Nat) (g : List Nat) : List (List Msg) :=
  (List.range g.length).map (S gi)

def rowsOf (groups : List (List Nat)) (S : Nat → Nat → List Msg) : List (List (List Msg)) :=
  groups.zipIdx.map (fun p => rowOf S p.2 p.1)

theorem rowsOf_get (groups : List (List Nat)) (S : Nat → Nat → List Msg) (gi : Nat) :
    (rowsOf groups S)[gi]? = groups[gi]?.map (rowOf S gi) := by
  simp only [rowsOf, List.getElem?_map, List.getElem?_zipIdx]
  cases groups[gi]? <;> simp

theorem slots_eq {seqs : List (List Seq)} {groups : List (List Nat)} {S : Nat → Nat → List Msg}
    (h : Slots seqs groups S) : seqs = (rowsOf groups S).map (fun r => r.map Seq.ofAbs) := by
  apply List.ext_getElem?
  intro a
  rw [List.getElem?_map, rowsOf_get]
  cases hga : groups[a]? with
  | none =>
    have : groups.length ≤ a := by
      rcases Nat.lt_or_ge a groups.length with h' | h'
      · rw [List.getElem?_eq_getElem h'] at hga; simp at hga
      · exact h'
    rw [List.getElem?_eq_none (by rw [h.1]; exact this)]
    rfl
  | some g =>
    obtain ⟨row, h1, h2, h3⟩ := h.2 a g hga
    rw [h1]
    simp only [Option.map_some, Option.some.injEq]
    apply List.ext_getElem?
    intro b
    simp only [rowOf, List.getElem?_map]
    by_cases hb : b < g.length
    · rw [h3 b hb, List.getElem?_range hb]; rfl
    · rw [List.getElem?_eq_none (by omega), List.getElem?_eq_none (by simp; omega)]; rfl

/-- the merged sequence of one group, from the lists in its slots -/
def gmergeL (xs : List (List Msg)) : Seq := nz (sortAbs ((xs.map V).flatten))

theorem gmergeL_rel (xs : List (List Msg)) : (gmergeL xs).rel = C15.mergeRel (xs.map V) := rfl

theorem groups_foldG (rows : List (List (List Msg))) (hne : ∀ r ∈ rows, r ≠ []) :
    foldlM' groupStep [] (rows.map (fun r => r.map Seq.ofAbs)) = .ok (rows.map gmergeL) := by
  have := foldlM'_map groupStep (fun sl => nz (sortAbs ((sl.map (fun q => V q.abs)).flatten)))
    (rows.map (fun r => r.map Seq.ofAbs)) [] (by
      intro acc sl hsl
      obtain ⟨r, hr, rfl⟩ := List.mem_map.1 hsl
      cases r with
      | nil => exact absurd rfl (hne _ hr)
      | cons x0 rest =>
        rw [groupStep_ofAbs]
        simp [mergeAbs, List.map_map]
        rfl)
  rw [this]
  simp [List.map_map, gmergeL, Seq.ofAbs, Function.comp_def]

theorem groups_foldG_err (rows : List (List (List Msg))) (h : ∃ r ∈ rows, r = []) : ∀ acc,
    foldlM' groupStep acc (rows.map (fun r => r.map Seq.ofAbs)) = .error .indexError := by
  induction rows with
  | nil => simp at h
  | cons r rs ih =>
    intro acc
    cases r with
    | nil => simp [foldlM', groupStep_nil]
    | cons x0 rest =>
      have h' : ∃ r ∈ rs, r = [] := by
        obtain ⟨r, hr, hnil⟩ := h
        rcases List.mem_cons.1 hr with rfl | hr
        · simp at hnil
        · exact ⟨r, hr, hnil⟩
      simp only [List.map_cons, foldlM']
      have := groupStep_ofAbs acc x0 rest
      simp only [List.map_cons] at this
      rw [this]
      exact ih h' _

theorem rowsOf_nonempty (groups : List (List Nat)) (S : Nat → Nat → List Msg) :
    (∀ r ∈ rowsOf groups S, r ≠ []) ↔ ∀ g ∈ groups, g ≠ [] := by
  constructor
  · intro h g hg hnil
    obtain ⟨gi, hgi⟩ := List.getElem?_of_mem hg
    have := rowsOf_get groups S gi
    rw [hgi] at this
    have hmem := List.mem_of_getElem? this
    apply h _ hmem
    subst hnil
    rfl
  · intro h r hr hnil
    obtain ⟨gi, hgi⟩ := List.getElem?_of_mem hr
    rw [rowsOf_get] at hgi
    cases hg : groups[gi]? with
    | none => rw [hg] at hgi; simp at hgi
    | some g =>
      rw [hg] at hgi
      simp only [Option.map_some, Option.some.injEq] at hgi
      have hgne := h g (List.mem_of_getElem? hg)
      subst hgi
      simp only [rowOf, List.map_eq_nil_iff, List.range_eq_nil, List.length_eq_zero_iff] at hnil
      exact hgne hnil


/-! ## `convert` in closed form, for an arbitrary grouping -/

/-- the final content of slot `(gi, pos)` -/
abbrev slotF (ppqn filePpq : Int) (tracks : List (List MidiEv)) (groups : List (List Nat)) : Nat → Nat → List Msg :=
  slotAt ppqn filePpq tracks groups tracks.length

/-- every outcome of `convert` (non-negative delta times): an empty group is an `IndexError`; otherwise a
    meta target out of range is a `ValueError`; otherwise the result is the closed form -/
theorem convertG (ppqn filePpq : Int) (hp : 0 < ppqn) (hf : 0 < filePpq) (tracks : List (List MidiEv))
    (groups : List (List Nat)) (metaIdx : List Nat) (target : Int)
    (hd : ∀ evs ∈ tracks, ∀ e ∈ evs, 0 ≤ e.time) :
    ∃ s0 M, foldlM' (convTrack ppqn filePpq groups metaIdx)
        { seqs := groups.map (fun g => g.map (fun _ => Seq.new)) } tracks.zipIdx = .ok s0
      ∧ s0.metaSeq = Seq.ofAbs M ∧ MetaOk M
      ∧ M = (metaAll ppqn filePpq groups metaIdx tracks.zipIdx).foldl insort []
      ∧ ((∃ g ∈ groups, g = []) → convert ppqn filePpq tracks groups metaIdx target = .error .indexError)
      ∧ ((∀ g ∈ groups, g ≠ []) →
          foldlM' groupStep [] s0.seqs = .ok ((rowsOf groups (slotF ppqn filePpq tracks groups)).map gmergeL)
          ∧ ((target < 0 ∨ (groups.length : Int) ≤ target) →
              convert ppqn filePpq tracks groups metaIdx target = .error .valueError)
          ∧ (0 ≤ target → ∀ gt, groups[target.toNat]? = some gt →
              convert ppqn filePpq tracks groups metaIdx target =
                .ok (modifyAt (fun _ => finSeq s0.defCh
                        (gmergeL (rowOf (slotF ppqn filePpq tracks groups) target.toNat gt)).rel M) target.toNat
                      ((rowsOf groups (slotF ppqn filePpq tracks groups)).map gmergeL)))) := by
  obtain ⟨s, M, hfold, hslots, hm, hM, hMeq⟩ := tracksG ppqn filePpq hp hf tracks groups metaIdx hd
  have hseqs := slots_eq hslots
  refine ⟨s, M, hfold, hm, hM, hMeq, ?_, ?_⟩
  · intro hex
    have hex' : ∃ r ∈ rowsOf groups (slotF ppqn filePpq tracks groups), r = [] := by
      apply Classical.byContradiction
      intro hno
      have hall : ∀ r ∈ rowsOf groups (slotF ppqn filePpq tracks groups), r ≠ [] :=
        fun r hr hnil => hno ⟨r, hr, hnil⟩
      obtain ⟨g, hg, hnil⟩ := hex
      exact (rowsOf_nonempty groups _).1 hall g hg hnil
    rw [convert_eq]
    simp only [bind, Except.bind, hfold]
    rw [hseqs, groups_foldG_err _ hex']
  · intro hne
    have hne' := (rowsOf_nonempty groups (slotF ppqn filePpq tracks groups)).2 hne
    have hg := groups_foldG _ hne'
    rw [← hseqs] at hg
    refine ⟨hg, ?_, ?_⟩
    · intro hbad
      rw [convert_eq]
      simp only [bind, Except.bind, hfold, hg]
      apply finish_bad
      simpa [rowsOf] using hbad
    · intro ht0 gt hgt
      rw [convert_eq]
      simp only [bind, Except.bind, hfold, hg]
      exact finish_eq s _ target M hm (gmergeL (rowOf (slotF ppqn filePpq tracks groups) target.toNat gt)) ht0
        (by rw [List.getElem?_map, rowsOf_get, hgt]; rfl) rfl rfl


/-! ## first group -/

theorem find_zipIdx (p : List Nat → Bool) (groups : List (List Nat)) : ∀ (k : Nat) (g : List Nat) (gi : Nat),
    (groups.zipIdx k).find? (fun x => p x.1) = some (g, gi) ↔
      k ≤ gi ∧ groups[gi - k]? = some g ∧ p g = true ∧
        ∀ j g', j < gi - k → groups[j]? = some g' → p g' = false := by
  induction groups with
  | nil => intro k g gi; simp
  | cons x xs ih =>
    intro k g gi
    simp only [List.zipIdx_cons, List.find?_cons]
    by_cases hx : p x = true
    · simp only [hx, Option.some.injEq, Prod.mk.injEq]
      constructor
      · rintro ⟨rfl, rfl⟩
        refine ⟨Nat.le_refl _, by simp, hx, ?_⟩
        intro j g' hj; omega
      · rintro ⟨hk, hget, _, hmin⟩
        by_cases hgk : gi = k
        · subst hgk; simp at hget; exact ⟨hget, rfl⟩
        · have : 0 < gi - k := by omega
          have := hmin 0 x this (by simp)
          rw [hx] at this; simp at this
    · have hx' : p x = false := by simpa using hx
      simp only [hx']
      rw [ih (k + 1) g gi]
      constructor
      · rintro ⟨hk, hget, hp, hmin⟩
        have e : gi - k = (gi - (k + 1)) + 1 := by omega
        refine ⟨by omega, by rw [e]; simpa using hget, hp, ?_⟩
        intro j g' hj hg'
        cases j with
        | zero => simp at hg'; subst hg'; exact hx'
        | succ j => simp at hg'; exact hmin j g' (by omega) hg'
      · rintro ⟨hk, hget, hp, hmin⟩
        have hne : gi ≠ k := by
          intro e; subst e; simp at hget; subst hget; rw [hx'] at hp; simp at hp
        have e : gi - k = (gi - (k + 1)) + 1 := by omega
        refine ⟨by omega, by rw [e] at hget; simpa using hget, hp, ?_⟩
        intro j g' hj hg'
        exact hmin (j + 1) g' (by omega) (by simpa using hg')

/-- `firstGroupOf` in plain words: `gi` is the least index of a group containing `i`, and `pos` the first
    position of `i` in that group -/
theorem firstGroupOf_iff (groups : List (List Nat)) (i gi pos : Nat) :
    firstGroupOf groups i = some (gi, pos) ↔
      ∃ g, groups[gi]? = some g ∧ i ∈ g ∧ pos = g.idxOf i ∧
        ∀ j g', j < gi → groups[j]? = some g' → i ∉ g' := by
  unfold firstGroupOf
  constructor
  · intro h
    split at h
    · rename_i g gi' hf
      simp only [Option.some.injEq, Prod.mk.injEq] at h
      obtain ⟨rfl, rfl⟩ := h
      have := (find_zipIdx (fun g => g.contains i) groups 0 g gi').1 hf
      simp only [Nat.sub_zero, List.contains_iff_mem] at this
      obtain ⟨_, h2, h3, h4⟩ := this
      exact ⟨g, h2, h3, rfl, fun j g' hj hg' => by have := h4 j g' hj hg'; simpa using this⟩
    · simp at h
  · rintro ⟨g, h2, h3, rfl, h4⟩
    have : (groups.zipIdx 0).find? (fun x => x.1.contains i) = some (g, gi) := by
      apply (find_zipIdx (fun g => g.contains i) groups 0 g gi).2
      simp only [Nat.sub_zero, List.contains_iff_mem]
      exact ⟨Nat.zero_le _, h2, h3, fun j g' hj hg' => by simpa using h4 j g' hj hg'⟩
    rw [this]

/-! ## the sound of the loaded sequences, from the *normalised* tracks -/

theorem stage1N (xs : List (List Msg)) (h : ∀ x ∈ xs, GA (V x)) :
    OkRel (C15.mergeRel (xs.map V)) ∧ (∀ k, CG k (eventsRel (C15.mergeRel (xs.map V)))) ∧
    ∀ k t, SoundingAt (eventsRel (C15.mergeRel (xs.map V))) k t ↔ ∃ x ∈ xs, CS k t (V x) := by
  obtain ⟨m1, m2, m3⟩ := merge_ga (xs.map V) (by
    intro a ha
    obtain ⟨x, hx, rfl⟩ := List.mem_map.1 ha
    exact h x hx)
  refine ⟨m1, m2, fun k t => ?_⟩
  rw [m3]
  constructor
  · rintro ⟨a, ha, hcs⟩
    obtain ⟨x, hx, rfl⟩ := List.mem_map.1 ha
    exact ⟨x, hx, hcs⟩
  · rintro ⟨x, hx, hcs⟩
    exact ⟨V x, List.mem_map.2 ⟨x, hx, rfl⟩, hcs⟩

theorem out_soundingN (xs : List (List Msg)) (h : ∀ x ∈ xs, GA (V x)) (k : Int × Int) (t : Int) :
    SoundingAt (eventsAbs (toAbs (C15.mergeRel (xs.map V)))) k t ↔ ∃ x ∈ xs, CS k t (V x) := by
  obtain ⟨s1, s2, s3⟩ := stage1N xs h
  rw [(readout _ s1 s2).2, s3]

theorem out_sounding_targetN (xs : List (List Msg)) (h : ∀ x ∈ xs, GA (V x)) (M : List Msg) (hM : MetaOk M)
    (c : Int) (a : List Msg)
    (ha : a = toAbs (C15.mergeRel [toAbs (C15.mergeRel (xs.map V)), M])
      ∨ a = insort (toAbs (C15.mergeRel [toAbs (C15.mergeRel (xs.map V)), M])) (Msg.mkTimeSig c 4 4 0))
    (k : Int × Int) (t : Int) :
    SoundingAt (eventsAbs a) k t ↔ ∃ x ∈ xs, CS k t (V x) := by
  obtain ⟨s1, s2, s3⟩ := stage1N xs h
  obtain ⟨u1, u2, u3⟩ := stage2 _ M s1 s2 hM
  obtain ⟨r1, r2⟩ := readout _ u1 u2
  generalize hR : C15.mergeRel [toAbs (C15.mergeRel (xs.map V)), M] = R2 at *
  rcases ha with rfl | rfl
  · rw [r2, u3, s3]
  · have hsig1 : 0 ≤ (Msg.mkTimeSig c 4 4 0).time ∧ (Msg.mkTimeSig c 4 4 0).ty ≠ .wait :=
      ⟨Int.le_refl _, by simp [Msg.mkTimeSig]⟩
    have hsig2 : (Msg.mkTimeSig c 4 4 0).ty ≠ .noteOn ∧ (Msg.mkTimeSig c 4 4 0).ty ≠ .noteOff := by
      simp [Msg.mkTimeSig]
    obtain ⟨i1, i2⟩ := ga_insort (toAbs R2) (Msg.mkTimeSig c 4 4 0) r1 hsig1 hsig2
    rw [ga_sounding i1, i2, ← ga_sounding r1, r2, u3, s3]

theorem ga_nil : GA [] :=
  ⟨⟨by simp [TimeSorted], by simp [NonNegTimes], by simp⟩, fun k => (nonotes_cg k [] (by simp)).1⟩

theorem slotA_okAbs (ppqn filePpq : Int) (hp : 0 < ppqn) (hf : 0 < filePpq) (tracks : List (List MidiEv))
    (hd : ∀ evs ∈ tracks, ∀ e ∈ evs, 0 ≤ e.time) (i : Nat) : OkAbs (slotA ppqn filePpq tracks i) := by
  apply (curMsgs_okAbs ppqn filePpq hp hf 0 (Int.le_refl _) _ _).1
  intro e he
  cases hti : tracks[i]? with
  | none => simp [hti] at he
  | some evs =>
    simp only [hti, Option.getD_some] at he
    exact hd evs (List.mem_of_getElem? hti) e he

/-- what a successful `convert` looks like -/
theorem convertG_ok (ppqn filePpq : Int) (hp : 0 < ppqn) (hf : 0 < filePpq) (tracks : List (List MidiEv))
    (groups : List (List Nat)) (metaIdx : List Nat) (target : Int) (out : List Seq)
    (hd : ∀ evs ∈ tracks, ∀ e ∈ evs, 0 ≤ e.time)
    (h : convert ppqn filePpq tracks groups metaIdx target = .ok out) :
    ∃ s0 M gt, foldlM' (convTrack ppqn filePpq groups metaIdx)
        { seqs := groups.map (fun g => g.map (fun _ => Seq.new)) } tracks.zipIdx = .ok s0
      ∧ s0.metaSeq = Seq.ofAbs M ∧ MetaOk M
      ∧ M = (metaAll ppqn filePpq groups metaIdx tracks.zipIdx).foldl insort []
      ∧ (∀ g ∈ groups, g ≠ []) ∧ 0 ≤ target ∧ groups[target.toNat]? = some gt
      ∧ foldlM' groupStep [] s0.seqs = .ok ((rowsOf groups (slotF ppqn filePpq tracks groups)).map gmergeL)
      ∧ out = modifyAt (fun _ => finSeq s0.defCh
                  (gmergeL (rowOf (slotF ppqn filePpq tracks groups) target.toNat gt)).rel M) target.toNat
                ((rowsOf groups (slotF ppqn filePpq tracks groups)).map gmergeL) := by
  obtain ⟨s0, M, hfold, hm, hM, hMeq, hidx, hrest⟩ := convertG ppqn filePpq hp hf tracks groups metaIdx target hd
  have hne : ∀ g ∈ groups, g ≠ [] := by
    intro g hg hnil
    rw [hidx ⟨g, hg, hnil⟩] at h; simp at h
  obtain ⟨hgf, hbad, hgood⟩ := hrest hne
  have hrange : ¬ (target < 0 ∨ (groups.length : Int) ≤ target) := by
    intro hb; rw [hbad hb] at h; simp at h
  have ht0 : 0 ≤ target := by omega
  have hlt : target.toNat < groups.length := by omega
  refine ⟨s0, M, groups[target.toNat], hfold, hm, hM, hMeq, hne, ht0, List.getElem?_eq_getElem hlt, hgf, ?_⟩
  rw [hgood ht0 _ (List.getElem?_eq_getElem hlt)] at h
  simp only [Except.ok.injEq] at h
  exact h.symm

/-- the absolute view read from entry `gi` of the result -/
theorem outG_abs (rows : List (List (List Msg))) (target : Int) (d : Option Int) (M : List Msg)
    (rt : List (List Msg)) (hrt : rows[target.toNat]? = some rt)
    (gi : Nat) (r : List (List Msg)) (hr : rows[gi]? = some r) (s s' : Seq) (a : List Msg)
    (hs : (modifyAt (fun _ => finSeq d (gmergeL rt).rel M) target.toNat (rows.map gmergeL))[gi]? = some s)
    (ha : s.readAbs = .ok (s', a)) :
    (gi ≠ target.toNat ∧ a = toAbs (gmergeL r).rel)
    ∨ (gi = target.toNat ∧ a = (finSeq d (gmergeL r).rel M).abs) := by
  rw [getElem?_modifyAt] at hs
  by_cases hgi : gi = target.toNat
  · subst hgi
    have hgg : r = rt := Option.some.inj (hr.symm.trans hrt)
    subst hgg
    simp only [if_true, List.getElem?_map, hr, Option.map_some, Option.some.injEq] at hs
    subst hs
    rw [(finSeq_read d (gmergeL r).rel M).1] at ha
    simp only [Except.ok.injEq, Prod.mk.injEq] at ha
    exact Or.inr ⟨rfl, ha.2.symm⟩
  · simp only [hgi, if_false, List.getElem?_map, hr, Option.map_some, Option.some.injEq] at hs
    subst hs
    rw [readAbs_stale _ rfl rfl] at ha
    simp only [Except.ok.injEq, Prod.mk.injEq] at ha
    exact Or.inl ⟨hgi, ha.2.symm⟩

/-- **routing, arbitrary grouping**: the sounding set of loaded sequence `gi` is the union of the (counted)
    sounding sets of the *normalised* tracks whose FIRST group is `gi` -/
theorem loadG_core (ppqn filePpq : Int) (hp : 0 < ppqn) (hf : 0 < filePpq)
    (tracks : List (List MidiEv)) (groups : List (List Nat)) (metaIdx : List Nat) (target : Int) (out : List Seq)
    (h : convert ppqn filePpq tracks groups metaIdx target = .ok out)
    (hd : ∀ evs ∈ tracks, ∀ e ∈ evs, 0 ≤ e.time)
    (hga : ∀ i ∈ groups.flatten, GA (V (slotA ppqn filePpq tracks i)))
    (gi : Nat) (g : List Nat) (hg : groups[gi]? = some g) (s s' : Seq) (a : List Msg)
    (hs : out[gi]? = some s) (ha : s.readAbs = .ok (s', a)) (k : Int × Int) (t : Int) :
    SoundingAt (eventsAbs a) k t ↔
      ∃ i pos, firstGroupOf groups i = some (gi, pos) ∧ CS k t (V (slotA ppqn filePpq tracks i)) := by
  obtain ⟨s0, M, gt, _, _, hM, _, _, _, hgt, _, hout⟩ :=
    convertG_ok ppqn filePpq hp hf tracks groups metaIdx target out hd h
  subst hout
  have hrow : (rowsOf groups (slotF ppqn filePpq tracks groups))[gi]?
      = some (rowOf (slotF ppqn filePpq tracks groups) gi g) := by rw [rowsOf_get, hg]; rfl
  have hrowt : (rowsOf groups (slotF ppqn filePpq tracks groups))[target.toNat]?
      = some (rowOf (slotF ppqn filePpq tracks groups) target.toNat gt) := by rw [rowsOf_get, hgt]; rfl
  have hVnil : GA (V []) ∧ ∀ k t, ¬ CS k t (V []) := by
    obtain ⟨v1, v2⟩ := V_ga [] ga_nil
    refine ⟨v1, fun k t hcs => ?_⟩
    have := (v2 k t).1 hcs
    simp [CS, upTo, ons, offs] at this
  -- the slots of group `gi`
  have hslot : ∀ pos i, g[pos]? = some i →
      slotF ppqn filePpq tracks groups gi pos =
        if firstGroupOf groups i = some (gi, pos) then slotA ppqn filePpq tracks i else [] := by
    intro pos i hgp
    have hb : groups[gi]?.bind (·[pos]?) = some i := by simp [hg, hgp]
    simp only [slotF, slotAt, hb]
    by_cases hlt : i < tracks.length
    · simp [hlt]
    · have : slotA ppqn filePpq tracks i = [] := by
        simp [slotA, List.getElem?_eq_none (Nat.le_of_not_lt hlt), curMsgs]
      simp [hlt, this]
  have hxs : ∀ x ∈ rowOf (slotF ppqn filePpq tracks groups) gi g, GA (V x) := by
    intro x hx
    simp only [rowOf, List.mem_map, List.mem_range] at hx
    obtain ⟨pos, hpos, rfl⟩ := hx
    rw [hslot pos g[pos] (List.getElem?_eq_getElem hpos)]
    split
    · apply hga
      exact List.mem_flatten.2 ⟨g, List.mem_of_getElem? hg, List.getElem_mem hpos⟩
    · exact hVnil.1
  have hfin : (∃ x ∈ rowOf (slotF ppqn filePpq tracks groups) gi g, CS k t (V x)) ↔
      ∃ i pos, firstGroupOf groups i = some (gi, pos) ∧ CS k t (V (slotA ppqn filePpq tracks i)) := by
    constructor
    · rintro ⟨x, hx, hcs⟩
      simp only [rowOf, List.mem_map, List.mem_range] at hx
      obtain ⟨pos, hpos, rfl⟩ := hx
      rw [hslot pos g[pos] (List.getElem?_eq_getElem hpos)] at hcs
      split at hcs
      · rename_i hfg
        exact ⟨_, pos, hfg, hcs⟩
      · exact absurd hcs (hVnil.2 k t)
    · rintro ⟨i, pos, hfg, hcs⟩
      obtain ⟨g', hg', hig, hpos, _⟩ := (firstGroupOf_iff groups i gi pos).1 hfg
      rw [hg] at hg'; cases hg'
      have hlt : pos < g.length := by rw [hpos]; exact List.idxOf_lt_length_of_mem hig
      have hgp : g[pos]? = some i := by
        rw [List.getElem?_eq_getElem hlt]
        subst hpos
        rw [List.getElem_idxOf hlt]
      refine ⟨slotF ppqn filePpq tracks groups gi pos, ?_, ?_⟩
      · simp only [rowOf, List.mem_map, List.mem_range]; exact ⟨pos, hlt, rfl⟩
      · rw [hslot pos i hgp, if_pos hfg]; exact hcs
  rw [← hfin]
  rcases outG_abs _ target s0.defCh M _ hrowt gi _ hrow s s' a hs ha with ⟨_, e⟩ | ⟨_, e⟩
  · rw [e, gmergeL_rel]
    exact out_soundingN _ hxs k t
  · obtain ⟨_, f2⟩ := finSeq_read s0.defCh (gmergeL (rowOf (slotF ppqn filePpq tracks groups) gi g)).rel M
    rw [e]
    rw [gmergeL_rel] at f2 ⊢
    exact out_sounding_targetN _ hxs M hM (s0.defCh.getD 0) _ f2 k t


/-! ## the event in force does not depend on the `insort` order -/

theorem foldl_lstep_mem (ty : MType) (t : Int) (L : List Msg) : ∀ (best : Option Msg) (x : Msg),
    L.foldl (lstep ty t) best = some x → x ∈ L ∨ best = some x := by
  induction L with
  | nil => intro best x h; exact Or.inr h
  | cons m ms ih =>
    intro best x h
    simp only [List.foldl_cons] at h
    rcases ih _ x h with h1 | h1
    · exact Or.inl (List.mem_cons_of_mem _ h1)
    · unfold lstep at h1
      split at h1
      · simp only [Option.some.injEq] at h1; subst h1; exact Or.inl List.mem_cons_self
      · exact Or.inr h1

/-- inserting with `binary_insort` or appending at the end: the same event is in force afterwards -/
theorem latestL_insort (ty : MType) (t : Int) (A : List Msg) (hA : TimeSorted A) (x : Msg) :
    latestL ty (insort A x) t = lstep ty t (latestL ty A t) x := by
  obtain ⟨_, h2, h3⟩ := C04.insortGo_spec x.time A hA
  have hs : Sorted A := (timeSorted_iff_pairwise A).1 hA
  generalize hp : insortGo x.time A.toArray (A.length + 1) 0 A.length = p at h2 h3
  have hins : insort A x = A.take p ++ x :: A.drop p := by simp only [insort, hp]
  have hA' : A = A.take p ++ A.drop p := (List.take_append_drop p A).symm
  have hs2 : Sorted (A.drop p) := List.Pairwise.sublist (List.drop_sublist p A) hs
  generalize hb1 : (A.take p).foldl (lstep ty t) none = b1
  have hb1m : ∀ b ∈ b1, b.time ≤ x.time := by
    intro b hb
    have : (A.take p).foldl (lstep ty t) none = some b := by rw [hb1]; simpa using hb
    rcases foldl_lstep_mem ty t _ _ _ this with h | h
    · exact h2 b h
    · simp at h
  have hL : latestL ty (insort A x) t = (A.drop p).foldl (lstep ty t) (lstep ty t b1 x) := by
    unfold latestL
    rw [hins, List.foldl_append, List.foldl_cons, hb1]
  have hR : latestL ty A t = (A.drop p).foldl (lstep ty t) b1 := by
    unfold latestL
    conv => lhs; rw [hA']
    rw [List.foldl_append, hb1]
  rw [hL, hR]
  by_cases hx : cand ty t x = true
  · rw [lstep_cand ty t b1 x hx hb1m,
      foldl_lstep_sorted ty t _ (some x) hs2 (by
        intro b hb m hm; cases hb; have := h3 m hm; omega),
      foldl_lstep_sorted ty t _ b1 hs2 (by
        intro b hb m hm; have := hb1m b hb; have := h3 m hm; omega)]
    cases hl : ((A.drop p).filter (cand ty t)).getLast? with
    | none => simp only [Option.or_some, Option.getD_none, Option.none_or]; exact (lstep_cand ty t b1 x hx hb1m).symm
    | some y =>
      have hy : y ∈ A.drop p := (List.mem_filter.1 (List.mem_of_getLast? hl)).1
      have := h3 y hy
      simp only [Option.some_or]
      exact (lstep_lt ty t y x this).symm
  · have hx' : cand ty t x = false := by simpa using hx
    rw [lstep_not ty t b1 x hx', lstep_not ty t _ x hx']

theorem latestL_foldl_insort (ty : MType) (t : Int) (L : List Msg) :
    ∀ A, OkAbs A → (∀ m ∈ L, 0 ≤ m.time ∧ m.ty ≠ .wait) →
      latestL ty (L.foldl insort A) t = L.foldl (lstep ty t) (latestL ty A t) := by
  induction L with
  | nil => intro A _ _; rfl
  | cons x xs ih =>
    intro A hA hL
    simp only [List.foldl_cons]
    rw [ih _ (C04.insort_okA A x hA (hL x List.mem_cons_self)) (fun m hm => hL m (List.mem_cons_of_mem _ hm)),
      latestL_insort ty t A hA.1 x]

theorem okAbs_nil : OkAbs [] := ⟨by simp [TimeSorted], by simp [NonNegTimes], by simp⟩

theorem latestL_insorted (ty : MType) (t : Int) (L : List Msg) (hL : ∀ m ∈ L, 0 ≤ m.time ∧ m.ty ≠ .wait) :
    latestL ty (L.foldl insort []) t = latestL ty L t :=
  latestL_foldl_insort ty t L [] okAbs_nil hL

theorem lstep_map (ty : MType) (t : Int) (g : Msg → Msg) (best : Option Msg) (m : Msg)
    (hm : (g m).ty = m.ty ∧ (g m).time = m.time) (hb : ∀ b ∈ best, (g b).time = b.time) :
    lstep ty t (best.map g) (g m) = (lstep ty t best m).map g := by
  unfold lstep
  rw [hm.1, hm.2]
  have : (best.map g).all (fun b => decide (b.time ≤ m.time)) = best.all (fun b => decide (b.time ≤ m.time)) := by
    cases best with
    | none => rfl
    | some b => simp [hb b rfl]
  rw [this]
  split <;> rfl

theorem latestL_map (ty : MType) (t : Int) (g : Msg → Msg) (L : List Msg)
    (hg : ∀ m ∈ L, (g m).ty = m.ty ∧ (g m).time = m.time) : latestL ty (L.map g) t = (latestL ty L t).map g := by
  have : ∀ (pre : List Msg) (best : Option Msg), (∀ b ∈ best, (g b).time = b.time) →
      (∀ m ∈ L, (g m).ty = m.ty ∧ (g m).time = m.time) →
      (L.map g).foldl (lstep ty t) (best.map g) = (L.foldl (lstep ty t) best).map g := by
    induction L with
    | nil => intro _ best _ _; rfl
    | cons x xs ih =>
      intro pre best hb hL
      simp only [List.map_cons, List.foldl_cons]
      rw [lstep_map ty t g best x (hL x List.mem_cons_self) hb]
      apply ih (fun m hm => hg m (List.mem_cons_of_mem _ hm)) pre
      · intro b hb'
        unfold lstep at hb'
        split at hb'
        · simp only [Option.mem_def, Option.some.injEq] at hb'; subst hb'; exact (hL x List.mem_cons_self).2
        · exact hb b hb'
      · exact fun m hm => hL m (List.mem_cons_of_mem _ hm)
  exact this [] none (by simp) hg

/-- same type, channel and note: time order is key order -/
theorem kle_same (L : List Msg) (hs : Sorted L) (r : Nat) (c n : Int)
    (h : ∀ x ∈ L, x.ty.rank = r ∧ x.ch = c ∧ x.note = n) : L.Pairwise KLe := by
  induction L with
  | nil => exact List.Pairwise.nil
  | cons x xs ih =>
    have hs' := List.pairwise_cons.1 hs
    refine List.pairwise_cons.2 ⟨?_, ih hs'.2 (fun y hy => h y (List.mem_cons_of_mem _ hy))⟩
    intro b hb
    have h1 := h x List.mem_cons_self
    have h2 := h b (List.mem_cons_of_mem _ hb)
    have h3 := hs'.1 b hb
    show keyLe x b = true
    rw [keyLe_iff]
    omega


/-! ## the signatures on the meta target -/

/-- the last merge and the default 4/4, seen through the filter of one signature kind -/
theorem target_sigs {β : Type} [DecidableEq β] (ty : MType) (hty : ty = .timeSignature ∨ ty = .keySignature)
    (v : Msg → β) (p0 : β)
    (hnorm : ∀ r, NonNegWaits r → (eventsRel (normalise r)).filter (fun m => m.ty == ty)
      = dedupBy v p0 ((eventsRel r).filter (fun m => m.ty == ty)))
    (R1 M : List Msg) (hR1 : RelI R1) (hM : MetaOk M)
    (hT : (M.filter (fun m => m.ty == ty)).Pairwise KLe) (d : Option Int) :
    ∃ A2, OkAbs A2 ∧ A2.filter (fun m => m.ty == ty) = dedupBy v p0 (M.filter (fun m => m.ty == ty))
      ∧ (finSeq d R1 M).abs = if (timesOfType .timeSignature A2).any (fun m => m.time == 0) then A2
              else insort A2 (Msg.mkTimeSig (d.getD 0) 4 4 0) := by
  have hq : ∀ m : Msg, (m.ty == ty) = true → m.ty ≠ .internal := by
    intro m hm
    have : m.ty = ty := by simpa using hm
    rcases hty with rfl | rfl <;> simp [this]
  have hA1ok : OkAbs (toAbs R1) := C04.toAbs_ok _ hR1.1
  have hA1q : (toAbs R1).filter (fun m => m.ty == ty) = [] := by
    rw [List.filter_eq_nil_iff]
    intro m hm hmt
    have := (toAbs_absI _ hR1 m hm).1
    have hmt' : m.ty = ty := by simpa using hmt
    apply this
    rcases hty with rfl | rfl
    · exact Or.inl hmt'
    · exact Or.inr hmt'
  have hpipe := sig_pipeline (fun m => m.ty == ty) hq v p0 hnorm (toAbs R1) M hA1ok hM.1 hA1q hT
  have hoks : ∀ b ∈ [toAbs R1, M], OkAbs b := by
    intro b hb
    simp only [List.mem_cons, List.not_mem_nil, or_false] at hb
    rcases hb with rfl | rfl
    · exact hA1ok
    · exact hM.1
  have hR2ok : OkRel (C15.mergeRel [toAbs R1, M]) :=
    (C07.ok_out _ (C04.toRel_ok _ (C15.okU _ hoks))).1
  exact ⟨toAbs (C15.mergeRel [toAbs R1, M]), C04.toAbs_ok _ hR2ok, hpipe, finSeq_abs d R1 M⟩

/-- **time signature in force** on the meta target, in terms of the meta list `M` -/
theorem inforce_ts (R1 M : List Msg) (hR1 : RelI R1) (hM : MetaOk M)
    (hT : (M.filter (fun m => m.ty == MType.timeSignature)).Pairwise KLe)
    (hne : ∀ x ∈ M, x.ty = .timeSignature → tsv x ≠ (pyNone, pyNone)) (d : Option Int) (t : Int) (ht : 0 ≤ t) :
    (latestL .timeSignature (eventsAbs (finSeq d R1 M).abs) t).map tsv
      = ((latestL .timeSignature M t).map tsv).or (some (4, 4)) := by
  obtain ⟨A2, hA2, hfilt, hshape⟩ :=
    target_sigs .timeSignature (Or.inl rfl) tsv (pyNone, pyNone) normalise_ts_events R1 M hR1 hM hT d
  generalize hKdef : dedupBy tsv (pyNone, pyNone) (M.filter (fun m => m.ty == MType.timeSignature)) = K at hfilt
  have hK : ∀ x ∈ K, 0 ≤ x.time ∧ x.ty = .timeSignature := by
    intro x hx
    rw [← hKdef] at hx
    have := List.mem_filter.1 ((dedupBy_sublist tsv _ _).subset hx)
    exact ⟨hM.1.2.1 x this.1, by simpa using this.2⟩
  have hq : ∀ m : Msg, (m.ty == MType.timeSignature) = true → m.ty ≠ .internal := by
    intro m hm; have : m.ty = .timeSignature := by simpa using hm
    simp [this]
  generalize d.getD 0 = c at hshape
  have hdq : (Msg.mkTimeSig c 4 4 0).ty == MType.timeSignature := rfl
  have hdc : cand .timeSignature t (Msg.mkTimeSig c 4 4 0) = true := by simp [cand, Msg.mkTimeSig, ht]
  have hL : latestL .timeSignature (eventsAbs (finSeq d R1 M).abs) t
      = (latestL .timeSignature K t).or (some (Msg.mkTimeSig c 4 4 0)) := by
    rw [latestL_filter, filt_eventsAbs _ hq, hshape]
    split
    · rename_i h0
      rw [hfilt]
      have : timesOfType .timeSignature A2 = K := hfilt
      rw [this] at h0
      obtain ⟨x, hx, hx0⟩ := List.any_eq_true.1 h0
      have hx0' : x.time = 0 := by simpa using hx0
      have hcx : cand .timeSignature t x = true := by simp [cand, (hK x hx).2, hx0', ht]
      have hsp := latestL_spec .timeSignature t K
      cases hl : latestL .timeSignature K t with
      | none => rw [hl] at hsp; rw [hsp x hx] at hcx; simp at hcx
      | some y => rfl
    · rename_i h0
      have : timesOfType .timeSignature A2 = K := hfilt
      rw [this] at h0
      rw [insort_front _ A2 _ hA2 rfl hdq (by
        rw [hfilt]
        intro x hx hx0
        apply h0
        exact List.any_eq_true.2 ⟨x, hx, by simp [hx0]⟩), hfilt]
      exact latestL_cons _ t _ K hdc (fun m hm _ => (hK m hm).1)
  rw [hL, map_or_some]
  have hTs : Sorted (M.filter (fun m => m.ty == MType.timeSignature)) :=
    List.Pairwise.sublist List.filter_sublist ((timeSorted_iff_pairwise M).1 hM.1.1)
  have hd := dedup_latest .timeSignature t tsv (pyNone, pyNone) _ hTs
    (fun x hx => by simpa using (List.mem_filter.1 hx).2)
    (fun x hx => hne x (List.mem_filter.1 hx).1 (by simpa using (List.mem_filter.1 hx).2))
  rw [hKdef] at hd
  rw [hd, ← latestL_filter]
  rfl

/-- **key signature in force** on the meta target, in terms of the meta list `M` -/
theorem inforce_ks (R1 M : List Msg) (hR1 : RelI R1) (hM : MetaOk M)
    (hT : (M.filter (fun m => m.ty == MType.keySignature)).Pairwise KLe)
    (hne : ∀ x ∈ M, x.ty = .keySignature → ksv x ≠ pyNone) (d : Option Int) (t : Int) :
    (latestL .keySignature (eventsAbs (finSeq d R1 M).abs) t).map ksv = (latestL .keySignature M t).map ksv := by
  obtain ⟨A2, hA2, hfilt, hshape⟩ :=
    target_sigs .keySignature (Or.inr rfl) ksv pyNone normalise_ks_events R1 M hR1 hM hT d
  have hq : ∀ m : Msg, (m.ty == MType.keySignature) = true → m.ty ≠ .internal := by
    intro m hm; have : m.ty = .keySignature := by simpa using hm
    simp [this]
  have hL : latestL .keySignature (eventsAbs (finSeq d R1 M).abs) t
      = latestL .keySignature (dedupBy ksv pyNone (M.filter (fun m => m.ty == MType.keySignature))) t := by
    rw [latestL_filter, filt_eventsAbs _ hq, hshape]
    split
    · rw [hfilt]
    · rw [filter_insort_not _ _ _ (by simp [Msg.mkTimeSig]), hfilt]
  have hTs : Sorted (M.filter (fun m => m.ty == MType.keySignature)) :=
    List.Pairwise.sublist List.filter_sublist ((timeSorted_iff_pairwise M).1 hM.1.1)
  have hd := dedup_latest .keySignature t ksv pyNone _ hTs
    (fun x hx => by simpa using (List.mem_filter.1 hx).2)
    (fun x hx => hne x (List.mem_filter.1 hx).1 (by simpa using (List.mem_filter.1 hx).2))
  rw [hL, hd, ← latestL_filter]


/-! ## the file's signature events -/

/-- the time / key signature events of a track, each stamped with the rounded exact position of its
    running file tick; all other fields are the event's own -/
def sigEvs (ppqn filePpq : Int) : Int → List MidiEv → List Msg
  | _, [] => []
  | ticks, e :: es =>
    let t := ticks + e.time
    if e.ty = .timeSignature ∨ e.ty = .keySignature then
      { e with time := roundHalfEven (exactPos ppqn filePpq t) } :: sigEvs ppqn filePpq t es
    else sigEvs ppqn filePpq t es

def chOf (e : Msg) : Int := if e.ch == pyNone then 0 else e.ch
/-- the internal time-signature message made from a (stamped) time-signature event -/
def convTs (e : Msg) : Msg := Msg.mkTimeSig (chOf e) e.num e.den e.time
/-- the internal key-signature message made from a (stamped) key-signature event -/
def convKs (e : Msg) : Msg := { ty := .keySignature, ch := chOf e, key := e.key, time := e.time }

theorem convEvent_sig (b : Bool) (e : MidiEv) (rt : Int) :
    (e.ty = .timeSignature → convEvent b e rt = some (true, convTs { e with time := rt }))
    ∧ (e.ty = .keySignature → convEvent b e rt = some (true, convKs { e with time := rt }))
    ∧ (e.ty ≠ .timeSignature → e.ty ≠ .keySignature → ∀ d m, convEvent b e rt = some (d, m) →
        m.ty ≠ .timeSignature ∧ m.ty ≠ .keySignature) := by
  refine ⟨fun h => by simp [convEvent, h, convTs, chOf], fun h => by simp [convEvent, h, convKs, chOf], ?_⟩
  intro h1 h2 d m hc
  unfold convEvent at hc
  cases hty : e.ty <;> simp only [hty] at hc h1 h2 <;> (try cases b) <;>
    simp [Msg.mkOn, Msg.mkOff] at hc h1 h2 <;> (obtain ⟨_, rfl⟩ := hc; simp)

theorem metMsgs_sig (ppqn filePpq : Int) (b : Bool) (evs : List MidiEv) : ∀ ticks,
    (metMsgs ppqn filePpq b ticks evs).filter (fun m => m.ty == MType.timeSignature)
      = ((sigEvs ppqn filePpq ticks evs).filter (fun m => m.ty == MType.timeSignature)).map convTs
    ∧ (metMsgs ppqn filePpq b ticks evs).filter (fun m => m.ty == MType.keySignature)
      = ((sigEvs ppqn filePpq ticks evs).filter (fun m => m.ty == MType.keySignature)).map convKs := by
  induction evs with
  | nil => intro ticks; simp [metMsgs, sigEvs]
  | cons e es ih =>
    intro ticks
    obtain ⟨i1, i2⟩ := ih (ticks + e.time)
    obtain ⟨c1, c2, c3⟩ := convEvent_sig b e (roundHalfEven (exactPos ppqn filePpq (ticks + e.time)))
    by_cases hts : e.ty = .timeSignature
    · simp only [metMsgs, sigEvs, c1 hts, hts, true_or, if_true]
      simp [convTs, Msg.mkTimeSig, i1, i2]
    · by_cases hks : e.ty = .keySignature
      · simp only [metMsgs, sigEvs, c2 hks, hks, or_true, if_true]
        simp [convKs, i1, i2]
      · simp only [metMsgs, sigEvs, hts, hks, or_self, if_false]
        split
        · rename_i m hm
          obtain ⟨n1, n2⟩ := c3 hts hks true m hm
          simp [n1, n2, i1, i2]
        · exact ⟨i1, i2⟩

theorem nonMsgs_sig (ppqn filePpq : Int) (evs : List MidiEv) : ∀ ticks,
    (nonMsgs ppqn filePpq ticks evs).filter (fun m => m.ty == MType.timeSignature)
      = ((sigEvs ppqn filePpq ticks evs).filter (fun m => m.ty == MType.timeSignature)).map convTs
    ∧ (nonMsgs ppqn filePpq ticks evs).filter (fun m => m.ty == MType.keySignature)
      = ((sigEvs ppqn filePpq ticks evs).filter (fun m => m.ty == MType.keySignature)).map convKs := by
  induction evs with
  | nil => intro ticks; simp [nonMsgs, sigEvs]
  | cons e es ih =>
    intro ticks
    obtain ⟨i1, i2⟩ := ih (ticks + e.time)
    obtain ⟨c1, c2, c3⟩ := convEvent_sig false e (roundHalfEven (exactPos ppqn filePpq (ticks + e.time)))
    by_cases hts : e.ty = .timeSignature
    · simp only [nonMsgs, sigEvs, c1 hts, hts, true_or, if_true]
      simp [convTs, Msg.mkTimeSig, i1, i2]
    · by_cases hks : e.ty = .keySignature
      · simp only [nonMsgs, sigEvs, c2 hks, hks, or_true, if_true]
        simp [convKs, i1, i2]
      · simp only [nonMsgs, sigEvs, hts, hks, or_self, if_false]
        split
        · rename_i d m hm
          obtain ⟨n1, n2⟩ := c3 hts hks d m hm
          simp [n1, n2, i1, i2]
        · exact ⟨i1, i2⟩

/-- is track `i` read at all -/
def consid (groups : List (List Nat)) (metaIdx : List Nat) (i : Nat) : Bool :=
  (firstGroupOf groups i).isSome || metaIdx.contains i

/-- the signature events of all considered tracks, in track order -/
def fileSigsL (ppqn filePpq : Int) (groups : List (List Nat)) (metaIdx : List Nat) (tz : List (List MidiEv × Nat)) :
    List Msg :=
  tz.flatMap (fun p => if consid groups metaIdx p.2 then sigEvs ppqn filePpq 0 p.1 else [])

theorem metaAll_sig (ppqn filePpq : Int) (groups : List (List Nat)) (metaIdx : List Nat)
    (tz : List (List MidiEv × Nat)) :
    (metaAll ppqn filePpq groups metaIdx tz).filter (fun m => m.ty == MType.timeSignature)
      = ((fileSigsL ppqn filePpq groups metaIdx tz).filter (fun m => m.ty == MType.timeSignature)).map convTs
    ∧ (metaAll ppqn filePpq groups metaIdx tz).filter (fun m => m.ty == MType.keySignature)
      = ((fileSigsL ppqn filePpq groups metaIdx tz).filter (fun m => m.ty == MType.keySignature)).map convKs := by
  induction tz with
  | nil => simp [metaAll, fileSigsL]
  | cons p ps ih =>
    obtain ⟨i1, i2⟩ := ih
    unfold metaAll fileSigsL at i1 i2 ⊢
    simp only [List.flatMap_cons, List.filter_append, List.map_append, i1, i2]
    have hp : (metaOf ppqn filePpq groups metaIdx p.2 p.1).filter (fun m => m.ty == MType.timeSignature)
          = ((if consid groups metaIdx p.2 then sigEvs ppqn filePpq 0 p.1 else []).filter
              (fun m => m.ty == MType.timeSignature)).map convTs
        ∧ (metaOf ppqn filePpq groups metaIdx p.2 p.1).filter (fun m => m.ty == MType.keySignature)
          = ((if consid groups metaIdx p.2 then sigEvs ppqn filePpq 0 p.1 else []).filter
              (fun m => m.ty == MType.keySignature)).map convKs := by
      unfold metaOf consid
      cases hloc : firstGroupOf groups p.2 with
      | some l =>
        simp only [Option.isSome_some, Bool.true_or, if_true]
        exact metMsgs_sig ppqn filePpq true p.1 0
      | none =>
        simp only [Option.isSome_none, Bool.false_or]
        split
        · exact nonMsgs_sig ppqn filePpq p.1 0
        · simp
    rw [hp.1, hp.2]
    exact ⟨rfl, rfl⟩

theorem sigEvs_src (ppqn filePpq : Int) (hp : 0 < ppqn) (hf : 0 < filePpq) (evs : List MidiEv) :
    ∀ ticks, 0 ≤ ticks → (∀ e ∈ evs, 0 ≤ e.time) → ∀ x ∈ sigEvs ppqn filePpq ticks evs,
      0 ≤ x.time ∧ ∃ e ∈ evs, ∃ rt, x = { e with time := rt } := by
  induction evs with
  | nil => intro ticks _ _ x hx; simp [sigEvs] at hx
  | cons e es ih =>
    intro ticks ht hd x hx
    have he := hd e List.mem_cons_self
    have ht' : 0 ≤ ticks + e.time := by omega
    have ih' := ih (ticks + e.time) ht' (fun y hy => hd y (List.mem_cons_of_mem _ hy))
    simp only [sigEvs] at hx
    split at hx
    · rcases List.mem_cons.1 hx with rfl | hx
      · exact ⟨exactPos_nonneg ppqn filePpq hp hf _ ht', e, List.mem_cons_self, _, rfl⟩
      · obtain ⟨h1, e', he', rt, h2⟩ := ih' x hx
        exact ⟨h1, e', List.mem_cons_of_mem _ he', rt, h2⟩
    · obtain ⟨h1, e', he', rt, h2⟩ := ih' x hx
      exact ⟨h1, e', List.mem_cons_of_mem _ he', rt, h2⟩

theorem fileSigsL_src (ppqn filePpq : Int) (hp : 0 < ppqn) (hf : 0 < filePpq) (tracks : List (List MidiEv))
    (groups : List (List Nat)) (metaIdx : List Nat) (hd : ∀ evs ∈ tracks, ∀ e ∈ evs, 0 ≤ e.time) :
    ∀ x ∈ fileSigsL ppqn filePpq groups metaIdx tracks.zipIdx,
      0 ≤ x.time ∧ ∃ evs ∈ tracks, ∃ e ∈ evs, ∃ rt, x = { e with time := rt } := by
  intro x hx
  unfold fileSigsL at hx
  obtain ⟨p, hp', hxp⟩ := List.mem_flatMap.1 hx
  have hmem : p.1 ∈ tracks := by
    obtain ⟨i, hi⟩ := List.getElem?_of_mem hp'
    rw [List.getElem?_zipIdx] at hi
    cases hti : tracks[i]? with
    | none => rw [hti] at hi; simp at hi
    | some evs =>
      rw [hti] at hi
      simp only [Option.map_some, Option.some.injEq] at hi
      subst hi
      exact List.mem_of_getElem? hti
  split at hxp
  · obtain ⟨h1, e, he, rt, h2⟩ := sigEvs_src ppqn filePpq hp hf p.1 0 (Int.le_refl _) (hd _ hmem) x hxp
    exact ⟨h1, p.1, hmem, e, he, rt, h2⟩
  · simp at hxp

theorem mem_foldl_insort (L : List Msg) : ∀ (A : List Msg) (x : Msg), x ∈ L.foldl insort A ↔ x ∈ A ∨ x ∈ L := by
  induction L with
  | nil => intro A x; simp
  | cons m ms ih =>
    intro A x
    rw [List.foldl_cons, ih, (insort_perm A m).mem_iff]
    simp only [List.mem_cons]
    constructor
    · rintro ((rfl | h) | h)
      · exact Or.inr (Or.inl rfl)
      · exact Or.inl h
      · exact Or.inr (Or.inr h)
    · rintro (h | rfl | h)
      · exact Or.inl (Or.inr h)
      · exact Or.inl (Or.inl rfl)
      · exact Or.inr h


/-! ## the signature in force after loading, for arbitrary resolution, grouping, meta tracks and target -/

/-- what the parser guarantees of time-signature events: no channel, numerator / denominator present -/
def TsDomain (evs : List MidiEv) : Prop :=
  ∀ e ∈ evs, e.ty = .timeSignature → e.ch = pyNone ∧ (e.num, e.den) ≠ (pyNone, pyNone)

/-- what the parser guarantees of key-signature events: no channel, key present -/
def KsDomain (evs : List MidiEv) : Prop :=
  ∀ e ∈ evs, e.ty = .keySignature → e.ch = pyNone ∧ e.key ≠ pyNone

/-- the meta target's absolute view and the facts needed about it -/
theorem target_view (ppqn filePpq : Int) (hp : 0 < ppqn) (hf : 0 < filePpq)
    (tracks : List (List MidiEv)) (groups : List (List Nat)) (metaIdx : List Nat) (target : Int) (out : List Seq)
    (h : convert ppqn filePpq tracks groups metaIdx target = .ok out)
    (hd : ∀ evs ∈ tracks, ∀ e ∈ evs, 0 ≤ e.time)
    (s s' : Seq) (a : List Msg) (hs : out[target.toNat]? = some s) (ha : s.readAbs = .ok (s', a)) :
    ∃ R1 M d, RelI R1 ∧ MetaOk M ∧ M = (metaAll ppqn filePpq groups metaIdx tracks.zipIdx).foldl insort []
      ∧ a = (finSeq d R1 M).abs := by
  obtain ⟨s0, M, gt, hfold, _, hM, hMeq, _, _, hgt, hgf, hout⟩ :=
    convertG_ok ppqn filePpq hp hf tracks groups metaIdx target out hd h
  subst hout
  have hrowt : (rowsOf groups (slotF ppqn filePpq tracks groups))[target.toNat]?
      = some (rowOf (slotF ppqn filePpq tracks groups) target.toNat gt) := by rw [rowsOf_get, hgt]; rfl
  have hI := tracks_slotsI ppqn filePpq tracks groups metaIdx s0 hfold
  have hmi := groups_mi s0.seqs hI _ hgf
  have hR1 : RelI (gmergeL (rowOf (slotF ppqn filePpq tracks groups) target.toNat gt)).rel :=
    (hmi _ (List.mem_map.2 ⟨_, List.mem_of_getElem? hrowt, rfl⟩)).2.2
  refine ⟨_, M, s0.defCh, hR1, hM, hMeq, ?_⟩
  rcases outG_abs _ target s0.defCh M _ hrowt target.toNat _ hrowt s s' a hs ha with ⟨hne, _⟩ | ⟨_, e⟩
  · exact absurd rfl hne
  · exact e

theorem metaAll_latest (ppqn filePpq : Int) (tracks : List (List MidiEv)) (groups : List (List Nat))
    (metaIdx : List Nat) (M : List Msg) (hM : MetaOk M)
    (hMeq : M = (metaAll ppqn filePpq groups metaIdx tracks.zipIdx).foldl insort []) :
    ∀ ty t, latestL ty M t = latestL ty (metaAll ppqn filePpq groups metaIdx tracks.zipIdx) t := by
  have hmem : ∀ x, x ∈ M ↔ x ∈ metaAll ppqn filePpq groups metaIdx tracks.zipIdx := by
    intro x; rw [hMeq, mem_foldl_insort]; simp
  intro ty t
  rw [hMeq]
  apply latestL_insorted
  intro m hm
  have := (hmem m).2 hm
  exact ⟨hM.1.2.1 m this, hM.1.2.2 m this⟩

theorem metaAll_ts (ppqn filePpq : Int) (hp : 0 < ppqn) (hf : 0 < filePpq)
    (tracks : List (List MidiEv)) (groups : List (List Nat)) (metaIdx : List Nat)
    (hd : ∀ evs ∈ tracks, ∀ e ∈ evs, 0 ≤ e.time) (hdom : ∀ evs ∈ tracks, TsDomain evs)
    (M : List Msg) (hMeq : M = (metaAll ppqn filePpq groups metaIdx tracks.zipIdx).foldl insort []) :
    ∀ x ∈ M, x.ty = .timeSignature → x.ch = 0 ∧ x.note = pyNone ∧ tsv x ≠ (pyNone, pyNone) := by
  have hmem : ∀ x, x ∈ M ↔ x ∈ metaAll ppqn filePpq groups metaIdx tracks.zipIdx := by
    intro x; rw [hMeq, mem_foldl_insort]; simp
  obtain ⟨f1, _⟩ := metaAll_sig ppqn filePpq groups metaIdx tracks.zipIdx
  have hsrc := fileSigsL_src ppqn filePpq hp hf tracks groups metaIdx hd
  intro x hx hty
  have : x ∈ (metaAll ppqn filePpq groups metaIdx tracks.zipIdx).filter (fun m => m.ty == MType.timeSignature) :=
    List.mem_filter.2 ⟨(hmem x).1 hx, by simp [hty]⟩
  rw [f1] at this
  obtain ⟨e, he, rfl⟩ := List.mem_map.1 this
  obtain ⟨he1, he2⟩ := List.mem_filter.1 he
  obtain ⟨_, evs, hevs, e0, he0, rt, rfl⟩ := hsrc e he1
  have hty0 : e0.ty = .timeSignature := by simpa using he2
  obtain ⟨hc, hv⟩ := hdom evs hevs e0 he0 hty0
  refine ⟨by simp [convTs, chOf, Msg.mkTimeSig, hc], by simp [convTs, Msg.mkTimeSig], ?_⟩
  simpa [convTs, Msg.mkTimeSig, tsv] using hv

theorem metaAll_ks (ppqn filePpq : Int) (hp : 0 < ppqn) (hf : 0 < filePpq)
    (tracks : List (List MidiEv)) (groups : List (List Nat)) (metaIdx : List Nat)
    (hd : ∀ evs ∈ tracks, ∀ e ∈ evs, 0 ≤ e.time) (hdom : ∀ evs ∈ tracks, KsDomain evs)
    (M : List Msg) (hMeq : M = (metaAll ppqn filePpq groups metaIdx tracks.zipIdx).foldl insort []) :
    ∀ x ∈ M, x.ty = .keySignature → x.ch = 0 ∧ x.note = pyNone ∧ ksv x ≠ pyNone := by
  have hmem : ∀ x, x ∈ M ↔ x ∈ metaAll ppqn filePpq groups metaIdx tracks.zipIdx := by
    intro x; rw [hMeq, mem_foldl_insort]; simp
  obtain ⟨_, f2⟩ := metaAll_sig ppqn filePpq groups metaIdx tracks.zipIdx
  have hsrc := fileSigsL_src ppqn filePpq hp hf tracks groups metaIdx hd
  intro x hx hty
  have : x ∈ (metaAll ppqn filePpq groups metaIdx tracks.zipIdx).filter (fun m => m.ty == MType.keySignature) :=
    List.mem_filter.2 ⟨(hmem x).1 hx, by simp [hty]⟩
  rw [f2] at this
  obtain ⟨e, he, rfl⟩ := List.mem_map.1 this
  obtain ⟨he1, he2⟩ := List.mem_filter.1 he
  obtain ⟨_, evs, hevs, e0, he0, rt, rfl⟩ := hsrc e he1
  have hty0 : e0.ty = .keySignature := by simpa using he2
  obtain ⟨hc, hv⟩ := hdom evs hevs e0 he0 hty0
  refine ⟨by simp [convKs, chOf, hc], by simp [convKs], ?_⟩
  simpa [convKs, ksv] using hv

/-- **time signature in force after loading** (arbitrary ppq, grouping, meta tracks, target): at every
    tick it is the one in force among the signature events of the considered tracks (4/4 by default) -/
theorem inforce_load_ts (ppqn filePpq : Int) (hp : 0 < ppqn) (hf : 0 < filePpq)
    (tracks : List (List MidiEv)) (groups : List (List Nat)) (metaIdx : List Nat) (target : Int) (out : List Seq)
    (h : convert ppqn filePpq tracks groups metaIdx target = .ok out)
    (hd : ∀ evs ∈ tracks, ∀ e ∈ evs, 0 ≤ e.time) (hdom : ∀ evs ∈ tracks, TsDomain evs)
    (s s' : Seq) (a : List Msg) (hs : out[target.toNat]? = some s) (ha : s.readAbs = .ok (s', a))
    (t : Int) (ht : 0 ≤ t) :
    (latestL .timeSignature (eventsAbs a) t).map tsv
      = ((latestL .timeSignature (fileSigsL ppqn filePpq groups metaIdx tracks.zipIdx) t).map tsv).or (some (4, 4)) := by
  obtain ⟨R1, M, d, hR1, hM, hMeq, rfl⟩ := target_view ppqn filePpq hp hf tracks groups metaIdx target out h hd s s' a hs ha
  have g1 := metaAll_ts ppqn filePpq hp hf tracks groups metaIdx hd hdom M hMeq
  have g3 := metaAll_latest ppqn filePpq tracks groups metaIdx M hM hMeq
  have hTs : Sorted (M.filter (fun m => m.ty == MType.timeSignature)) :=
    List.Pairwise.sublist List.filter_sublist ((timeSorted_iff_pairwise M).1 hM.1.1)
  have hT : (M.filter (fun m => m.ty == MType.timeSignature)).Pairwise KLe := by
    apply kle_same _ hTs 3 0 pyNone
    intro x hx
    obtain ⟨hx1, hx2⟩ := List.mem_filter.1 hx
    have hty : x.ty = .timeSignature := by simpa using hx2
    obtain ⟨c1, c2, _⟩ := g1 x hx1 hty
    exact ⟨by rw [hty]; rfl, c1, c2⟩
  rw [inforce_ts R1 M hR1 hM hT (fun x hx hty => (g1 x hx hty).2.2) d t ht, g3, latestL_filter,
    (metaAll_sig ppqn filePpq groups metaIdx tracks.zipIdx).1,
    latestL_map _ t convTs _ (fun m hm => ⟨by have := (List.mem_filter.1 hm).2; simp at this; simp [convTs, Msg.mkTimeSig, this], rfl⟩),
    ← latestL_filter]
  congr 1
  cases latestL .timeSignature (fileSigsL ppqn filePpq groups metaIdx tracks.zipIdx) t <;> rfl

/-- **key signature in force after loading** (arbitrary ppq, grouping, meta tracks, target) -/
theorem inforce_load_ks (ppqn filePpq : Int) (hp : 0 < ppqn) (hf : 0 < filePpq)
    (tracks : List (List MidiEv)) (groups : List (List Nat)) (metaIdx : List Nat) (target : Int) (out : List Seq)
    (h : convert ppqn filePpq tracks groups metaIdx target = .ok out)
    (hd : ∀ evs ∈ tracks, ∀ e ∈ evs, 0 ≤ e.time) (hdom : ∀ evs ∈ tracks, KsDomain evs)
    (s s' : Seq) (a : List Msg) (hs : out[target.toNat]? = some s) (ha : s.readAbs = .ok (s', a)) (t : Int) :
    (latestL .keySignature (eventsAbs a) t).map ksv
      = (latestL .keySignature (fileSigsL ppqn filePpq groups metaIdx tracks.zipIdx) t).map ksv := by
  obtain ⟨R1, M, d, hR1, hM, hMeq, rfl⟩ := target_view ppqn filePpq hp hf tracks groups metaIdx target out h hd s s' a hs ha
  have g2 := metaAll_ks ppqn filePpq hp hf tracks groups metaIdx hd hdom M hMeq
  have g3 := metaAll_latest ppqn filePpq tracks groups metaIdx M hM hMeq
  have hTs : Sorted (M.filter (fun m => m.ty == MType.keySignature)) :=
    List.Pairwise.sublist List.filter_sublist ((timeSorted_iff_pairwise M).1 hM.1.1)
  have hT : (M.filter (fun m => m.ty == MType.keySignature)).Pairwise KLe := by
    apply kle_same _ hTs 2 0 pyNone
    intro x hx
    obtain ⟨hx1, hx2⟩ := List.mem_filter.1 hx
    have hty : x.ty = .keySignature := by simpa using hx2
    obtain ⟨c1, c2, _⟩ := g2 x hx1 hty
    exact ⟨by rw [hty]; rfl, c1, c2⟩
  rw [inforce_ks R1 M hR1 hM hT (fun x hx hty => (g2 x hx hty).2.2) d t, g3, latestL_filter,
    (metaAll_sig ppqn filePpq groups metaIdx tracks.zipIdx).2,
    latestL_map _ t convKs _ (fun m hm => ⟨by have := (List.mem_filter.1 hm).2; simp at this; simp [convKs, this], rfl⟩),
    ← latestL_filter]
  cases latestL .keySignature (fileSigsL ppqn filePpq groups metaIdx tracks.zipIdx) t <;> rfl


/-! ## totality -/

/-- with non-empty groups and a valid target the conversion succeeds, gives one sequence per group, and
    every returned sequence can be read -/
theorem convertG_total (ppqn filePpq : Int) (hp : 0 < ppqn) (hf : 0 < filePpq) (tracks : List (List MidiEv))
    (groups : List (List Nat)) (metaIdx : List Nat) (target : Int)
    (hd : ∀ evs ∈ tracks, ∀ e ∈ evs, 0 ≤ e.time)
    (hne : ∀ g ∈ groups, g ≠ []) (ht0 : 0 ≤ target) (ht1 : target < (groups.length : Int)) :
    ∃ out, convert ppqn filePpq tracks groups metaIdx target = .ok out ∧ out.length = groups.length
      ∧ ∀ gi, gi < groups.length → ∃ s s' a, out[gi]? = some s ∧ s.readAbs = .ok (s', a) := by
  obtain ⟨s0, M, _, _, _, _, _, hrest⟩ := convertG ppqn filePpq hp hf tracks groups metaIdx target hd
  obtain ⟨_, _, hgood⟩ := hrest hne
  have hlt : target.toNat < groups.length := by omega
  refine ⟨_, hgood ht0 _ (List.getElem?_eq_getElem hlt), by simp [MidiL.length_modifyAt, rowsOf], ?_⟩
  intro gi hgi
  rw [getElem?_modifyAt]
  have hrow : (rowsOf groups (slotF ppqn filePpq tracks groups))[gi]?
      = some (rowOf (slotF ppqn filePpq tracks groups) gi groups[gi]) := by
    rw [rowsOf_get, List.getElem?_eq_getElem hgi]; rfl
  by_cases hg : gi = target.toNat
  · subst hg
    simp only [if_true, List.getElem?_map, hrow, Option.map_some]
    exact ⟨_, _, _, rfl, (finSeq_read _ _ _).1⟩
  · simp only [hg, if_false, List.getElem?_map, hrow]
    exact ⟨_, _, _, rfl, readAbs_stale _ rfl rfl⟩


/-! ## every outcome of `convert`, for arbitrary (also negative) delta times -/

/-- the rows of the state mirror the groups in number and length -/
def Shp (groups : List (List Nat)) (seqs : List (List Seq)) : Prop :=
  ∀ (gi : Nat) (g : List Nat), groups[gi]? = some g → ∃ row : List Seq, seqs[gi]? = some row ∧ row.length = g.length

theorem shp_init (groups : List (List Nat)) : Shp groups (groups.map (fun g => g.map (fun _ => Seq.new))) := by
  intro gi g hg
  exact ⟨g.map (fun _ => Seq.new), by simp [hg], by simp⟩

theorem addCur_ok (n : Nat) (groups : List (List Nat)) (s : ConvSt) (hc : CInv n s) (hs : Shp groups s.seqs)
    (gi pos : Nat) (g : List Nat) (hg : groups[gi]? = some g) (hpos : pos < g.length) (m : Msg) :
    ∃ s', s.addCur (some (gi, pos)) m = .ok s' ∧ CInv n s' ∧ Shp groups s'.seqs := by
  obtain ⟨row, hr1, hr2⟩ := hs gi g hg
  have hlt : pos < row.length := by omega
  have hl : (s.seqs[gi]?.bind (·[pos]?)) = some row[pos] := by simp [hr1, List.getElem?_eq_getElem hlt]
  have hgood : Good row[pos] := hc.2.1 row (List.mem_of_getElem? hr1) _ (List.getElem_mem hlt)
  obtain ⟨q', hq', _⟩ := addAbsMsg_good row[pos] m hgood
  have hinv := addCur_inv n s (some (gi, pos)) m hc
  have hok : s.addCur (some (gi, pos)) m
      = .ok { s with seqs := modifyAt (fun g' => modifyAt (fun _ => q') pos g') gi s.seqs } := by
    unfold ConvSt.addCur
    simp only [hl, hq', bind, Except.bind]
  refine ⟨_, hok, hinv.of_ok hok, ?_⟩
  intro a ga hga
  obtain ⟨rowa, ha1, ha2⟩ := hs a ga hga
  simp only [getElem?_modifyAt]
  by_cases hag : a = gi
  · subst hag
    exact ⟨modifyAt (fun _ => q') pos rowa, by simp [ha1], by simp [MidiL.length_modifyAt, ha2]⟩
  · exact ⟨rowa, by simp [hag, ha1], ha2⟩

theorem convMsg_ok (n : Nat) (ppqn filePpq : Int) (groups : List (List Nat)) (loc : Option (Nat × Nat))
    (hloc : ∀ gi pos, loc = some (gi, pos) → ∃ g, groups[gi]? = some g ∧ pos < g.length)
    (acc : ConvSt × Int) (m : MidiEv) (hc : CInv n acc.1) (hs : Shp groups acc.1.seqs) :
    Res (fun _ => False) (fun r => CInv n r.1 ∧ Shp groups r.1.seqs) (convMsg ppqn filePpq loc acc m) := by
  obtain ⟨s, ticks⟩ := acc
  rw [convMsg_eq]
  have hw : CInv n (withDefCh s m) ∧ Shp groups (withDefCh s m).seqs := ⟨hc, hs⟩
  generalize withDefCh s m = s1 at hw
  have hmeta : ∀ msg, Res (fun _ => False) (fun r : ConvSt × Int => CInv n r.1 ∧ Shp groups r.1.seqs)
      (match s1.addMeta msg with | .ok s => .ok (s, ticks + m.time) | .error e => .error e) := by
    intro msg
    have h1 := addMeta_inv n s1 msg hw.1
    cases hres : s1.addMeta msg with
    | error e => exact (h1.of_error hres).elim
    | ok s2 =>
      simp only [Res]
      exact ⟨h1.of_ok hres, by rw [addMeta_seqs s1 s2 msg hres]; exact hw.2⟩
  split
  · exact hmeta _
  · rename_i msg _
    cases loc with
    | none => exact hmeta msg
    | some l =>
      obtain ⟨gi, pos⟩ := l
      obtain ⟨g, hg, hpos⟩ := hloc gi pos rfl
      obtain ⟨s2, h2, h3, h4⟩ := addCur_ok n groups s1 hw.1 hw.2 gi pos g hg hpos msg
      simp only [h2, Res]
      exact ⟨h3, h4⟩
  · exact hw

theorem tracks_ok (ppqn filePpq : Int) (tracks : List (List MidiEv)) (groups : List (List Nat)) (metaIdx : List Nat) :
    ∃ s, foldlM' (convTrack ppqn filePpq groups metaIdx)
        { seqs := groups.map (fun g => g.map (fun _ => Seq.new)) } tracks.zipIdx = .ok s
      ∧ CInv groups.length s ∧ Shp groups s.seqs := by
  have hres := foldlM'_res (convTrack ppqn filePpq groups metaIdx) (fun _ => False)
    (fun s => CInv groups.length s ∧ Shp groups s.seqs) tracks.zipIdx
    (by
      intro s it _ ⟨hc, hs⟩
      unfold convTrack
      simp only
      split
      · exact ⟨hc, hs⟩
      · have hloc : ∀ gi pos, firstGroupOf groups it.2 = some (gi, pos) → ∃ g, groups[gi]? = some g ∧ pos < g.length := by
          intro gi pos hfg
          obtain ⟨g, hg, hpos⟩ := firstGroupOf_some groups it.2 gi pos hfg
          refine ⟨g, hg, ?_⟩
          rcases Nat.lt_or_ge pos g.length with h | h
          · exact h
          · rw [List.getElem?_eq_none h] at hpos; simp at hpos
        have := foldlM'_res (convMsg ppqn filePpq (firstGroupOf groups it.2)) (fun _ => False)
          (fun r => CInv groups.length r.1 ∧ Shp groups r.1.seqs) it.1
          (fun b x _ hb => convMsg_ok groups.length ppqn filePpq groups _ hloc b x hb.1 hb.2) (s, 0) ⟨hc, hs⟩
        split
        · rename_i r hr; exact this.of_ok hr
        · rename_i e he; exact (this.of_error he).elim)
    { seqs := groups.map (fun g => g.map (fun _ => Seq.new)) } ⟨cinv_init groups, shp_init groups⟩
  cases hf : foldlM' (convTrack ppqn filePpq groups metaIdx)
      { seqs := groups.map (fun g => g.map (fun _ => Seq.new)) } tracks.zipIdx with
  | error e => exact (hres.of_error hf).elim
  | ok s => exact ⟨s, rfl, hres.of_ok hf⟩

theorem groupStep_ok (acc : List Seq) (g : List Seq) (hg : ∀ q ∈ g, Good q) (hne : g ≠ []) :
    ∃ acc', groupStep acc g = .ok acc' := by
  have hres := groupStep_res acc g hg
  cases hgs : groupStep acc g with
  | ok acc' => exact ⟨acc', rfl⟩
  | error e =>
    exfalso
    -- the only `IndexError` of `groupStep` is the empty group
    have h1 := foldlM'_res (fun (a : List Seq) q => do let q' ← q.normaliseSeq; .ok (a ++ [q']))
      (fun _ => False) (fun a => ∀ q ∈ a, Good q) g
      (fun b x hx hb => by
        obtain ⟨q, hq, hq'⟩ := normaliseSeq_good x (hg x hx)
        simp only [bind, Except.bind, hq, Res]
        intro y hy
        simp at hy
        rcases hy with hy | rfl
        · exact hb y hy
        · exact Or.inr hq') [] (by simp)
    unfold groupStep at hgs
    simp only [bind, Except.bind] at hgs h1
    split at hgs
    · rename_i e' he'; exact h1.of_error he'
    · rename_i g' hg'
      have hlen := foldlM'_length (fun (a : List Seq) q => do let q' ← q.normaliseSeq; .ok (a ++ [q']))
        (by
          intro a x a' h
          simp only [bind, Except.bind] at h
          split at h
          · simp at h
          · simp at h; subst h; simp) g [] g' (by simpa only [bind, Except.bind] using hg')
      have h2 := h1.of_ok hg'
      split at hgs
      · simp at hlen
        exact hne (List.length_eq_zero_iff.1 hlen.symm)
      · rename_i t rest
        have h3 := foldlM'_res (fun (a : List (List Msg)) (q : Seq) => do let (_, x) ← q.readAbs; .ok (a ++ [x]))
          (fun _ => False) (fun _ => True) rest
          (fun b x hx _ => by
            obtain ⟨q, a, hq⟩ := readAbs_good x (h2 x (List.mem_cons_of_mem _ hx))
            simp [bind, Except.bind, hq, Res]) [] trivial
        simp only [bind, Except.bind] at h3
        split at hgs
        · rename_i e' he'; exact h3.of_error he'
        · rename_i ra _
          obtain ⟨q, hq, _⟩ := mergeSeq_good t ra (h2 t List.mem_cons_self)
          rw [hq] at hgs
          simp at hgs

/-- **every outcome of `convert`**, for any tracks (no assumption on delta times), groups, meta tracks and
    target: an empty group is an `IndexError`; otherwise a target out of range is a `ValueError`;
    otherwise the conversion succeeds with one sequence per group -/
theorem convert_outcome (ppqn filePpq : Int) (tracks : List (List MidiEv)) (groups : List (List Nat))
    (metaIdx : List Nat) (target : Int) :
    ((∃ g ∈ groups, g = []) → convert ppqn filePpq tracks groups metaIdx target = .error .indexError)
    ∧ ((∀ g ∈ groups, g ≠ []) → (target < 0 ∨ (groups.length : Int) ≤ target) →
        convert ppqn filePpq tracks groups metaIdx target = .error .valueError)
    ∧ ((∀ g ∈ groups, g ≠ []) → 0 ≤ target → target < (groups.length : Int) →
        ∃ out, convert ppqn filePpq tracks groups metaIdx target = .ok out ∧ out.length = groups.length) := by
  obtain ⟨s, hfold, hc, hs⟩ := tracks_ok ppqn filePpq tracks groups metaIdx
  have hrow : ∀ row ∈ s.seqs, ∃ g ∈ groups, row.length = g.length := by
    intro row hrow
    obtain ⟨gi, hgi⟩ := List.getElem?_of_mem hrow
    have hlt : gi < groups.length := by
      rcases Nat.lt_or_ge gi s.seqs.length with h | h
      · rw [← hc.1]; exact h
      · rw [List.getElem?_eq_none h] at hgi; simp at hgi
    obtain ⟨row', h1, h2⟩ := hs gi groups[gi] (List.getElem?_eq_getElem hlt)
    rw [hgi] at h1; cases h1
    exact ⟨groups[gi], List.getElem_mem hlt, h2⟩
  have hgres := groups_res s.seqs hc.2.1
  refine ⟨?_, ?_, ?_⟩
  · rintro ⟨g, hg, rfl⟩
    obtain ⟨gi, hgi⟩ := List.getElem?_of_mem hg
    obtain ⟨row, h1, h2⟩ := hs gi [] hgi
    have hnil : row = [] := List.length_eq_zero_iff.1 (by simpa using h2)
    subst hnil
    rw [convert_eq]
    simp only [bind, Except.bind, hfold]
    cases hm : foldlM' groupStep [] s.seqs with
    | error e => rw [hgres.of_error hm]
    | ok merged =>
      obtain ⟨b1, b2, hb⟩ := foldlM'_ok_all groupStep _ _ _ hm [] (List.mem_of_getElem? h1)
      rw [groupStep_nil] at hb
      simp at hb
  · intro hne hbad
    have hm : ∃ merged, foldlM' groupStep [] s.seqs = .ok merged := by
      have := foldlM'_res groupStep (fun _ => False) (fun _ => True) s.seqs
        (fun b row hrow' _ => by
          obtain ⟨g, hg, hlen⟩ := hrow row hrow'
          have hne' : row ≠ [] := by
            intro h0; subst h0
            exact hne g hg (List.length_eq_zero_iff.1 (by simpa using hlen.symm))
          obtain ⟨acc', hacc⟩ := groupStep_ok b row (hc.2.1 row hrow') hne'
          simp [hacc, Res]) [] trivial
      cases hm : foldlM' groupStep [] s.seqs with
      | error e => exact (this.of_error hm).elim
      | ok merged => exact ⟨merged, rfl⟩
    obtain ⟨merged, hm⟩ := hm
    rw [convert_eq]
    simp only [bind, Except.bind, hfold, hm]
    apply finish_bad
    rw [groups_length _ _ hm, hc.1]
    exact hbad
  · intro hne ht0 ht1
    have hm : ∃ merged, foldlM' groupStep [] s.seqs = .ok merged := by
      have := foldlM'_res groupStep (fun _ => False) (fun _ => True) s.seqs
        (fun b row hrow' _ => by
          obtain ⟨g, hg, hlen⟩ := hrow row hrow'
          have hne' : row ≠ [] := by
            intro h0; subst h0
            exact hne g hg (List.length_eq_zero_iff.1 (by simpa using hlen.symm))
          obtain ⟨acc', hacc⟩ := groupStep_ok b row (hc.2.1 row hrow') hne'
          simp [hacc, Res]) [] trivial
      cases hm : foldlM' groupStep [] s.seqs with
      | error e => exact (this.of_error hm).elim
      | ok merged => exact ⟨merged, rfl⟩
    obtain ⟨merged, hm⟩ := hm
    have hlen : merged.length = groups.length := by rw [groups_length _ _ hm, hc.1]
    have hmi : ∀ q ∈ merged, Good q := by
      -- every merged sequence has a fresh relative view
      have hI := tracks_slotsI ppqn filePpq tracks groups metaIdx s hfold
      exact fun q hq => Or.inr (groups_mi s.seqs hI merged hm q hq).2.1
    -- `finish` on a valid target
    have hti : target.toNat < merged.length := by omega
    have hgood := hmi merged[target.toNat] (List.getElem_mem hti)
    obtain ⟨mq, ma, hmr⟩ := readAbs_good s.metaSeq hc.2.2
    obtain ⟨mt2, hmt2, hmt2f⟩ := mergeSeq_good merged[target.toNat] [ma] hgood
    obtain ⟨mt3, a3, hmt3⟩ := readAbs_good mt2 (Or.inr hmt2f)
    have hmt3f := (readAbs_ok _ _ _ hmt3).1
    have hc' : (decide (target < 0) || decide (target ≥ (merged.length : Int))) = false := by
      have : ¬ target < 0 := by omega
      have : ¬ target ≥ (merged.length : Int) := by omega
      simp [*]
    rw [convert_eq]
    simp only [bind, Except.bind, hfold, hm]
    unfold finish
    simp only [bind, Except.bind, hc', Bool.false_eq_true, if_false, List.getElem?_eq_getElem hti, hmr, hmt2, hmt3]
    split
    · exact ⟨_, rfl, by simp [MidiL.length_modifyAt, hlen]⟩
    · rw [addAbsMsg_fresh _ _ hmt3f]
      exact ⟨_, rfl, by simp [MidiL.length_modifyAt, hlen]⟩


/-! ## C12: the notes of a saved sequence, after save and load -/

theorem pair_beq (a b x y : Int) : (((a, x) : Int × Int) == (a, y)) = (((b, x) : Int × Int) == (b, y)) := by
  by_cases h : x = y
  · subst h; simp
  · have h1 : ((a, x) : Int × Int) ≠ (a, y) := fun e => h (Prod.mk.inj e).2
    have h2 : ((b, x) : Int × Int) ≠ (b, y) := fun e => h (Prod.mk.inj e).2
    rw [beq_eq_false_iff_ne.2 h1, beq_eq_false_iff_ne.2 h2]

theorem noteOf_on (m : Msg) (h : m.ty = .noteOn) (hv : m.vel ≠ pyNone) :
    noteOf m = some (Msg.mkOn 0 m.note m.vel m.time) := by
  simp [noteOf, h, hv]

theorem filter_filterMap_noteOf (c0 p : Int) (opens : List Msg)
    (ho : ∀ o ∈ opens, o.ty = .noteOn ∧ o.ch = c0 ∧ o.vel ≠ pyNone) :
    (opens.filterMap noteOf).filter (fun o => o.nkey != (0, p))
      = (opens.filter (fun o => o.nkey != (c0, p))).filterMap noteOf := by
  induction opens with
  | nil => rfl
  | cons o os ih =>
    obtain ⟨h1, h2, h3⟩ := ho o List.mem_cons_self
    have ih' := ih (fun x hx => ho x (List.mem_cons_of_mem _ hx))
    rw [List.filterMap_cons, noteOf_on o h1 h3, List.filter_cons, List.filter_cons]
    have e : ((Msg.mkOn 0 o.note o.vel o.time).nkey != (0, p)) = (o.nkey != (c0, p)) := by
      simp only [Msg.mkOn, Msg.nkey, h2, bne, pair_beq 0 c0]
    rw [e]
    split
    · rw [List.filterMap_cons, noteOf_on o h1 h3, ih']
    · exact ih'

theorem find_filterMap_noteOf (c0 p : Int) (opens : List Msg)
    (ho : ∀ o ∈ opens, o.ty = .noteOn ∧ o.ch = c0 ∧ o.vel ≠ pyNone) :
    (opens.filterMap noteOf).find? (fun o => o.nkey == (0, p))
      = (opens.find? (fun o => o.nkey == (c0, p))).map (fun o => Msg.mkOn 0 o.note o.vel o.time) := by
  induction opens with
  | nil => rfl
  | cons o os ih =>
    obtain ⟨h1, h2, h3⟩ := ho o List.mem_cons_self
    have ih' := ih (fun x hx => ho x (List.mem_cons_of_mem _ hx))
    rw [List.filterMap_cons, noteOf_on o h1 h3, List.find?_cons, List.find?_cons]
    have e : ((Msg.mkOn 0 o.note o.vel o.time).nkey == (0, p)) = (o.nkey == (c0, p)) := by
      simp only [Msg.mkOn, Msg.nkey, h2, pair_beq 0 c0]
    rw [e]
    split
    · rfl
    · exact ih'

theorem notesGo_cons_on (m : Msg) (h : m.ty = .noteOn) (ms opens : List Msg) :
    notesGo (m :: ms) opens = notesGo ms (m :: opens.filter (fun o => o.nkey != m.nkey)) := by
  simp [notesGo, h]

theorem notesGo_cons_off (m : Msg) (h : m.ty = .noteOff) (ms opens : List Msg) :
    notesGo (m :: ms) opens =
      match opens.find? (fun o => o.nkey == m.nkey) with
      | some o => { ch := o.ch, pitch := o.note, on := o.time, off := m.time, vel := o.vel }
                    :: notesGo ms (opens.filter (fun x => x.nkey != m.nkey))
      | Option.none => notesGo ms opens := by
  rw [notesGo]
  have h1 : (m.ty == MType.noteOn) = false := by simp [h]
  have h2 : (m.ty == MType.noteOff) = true := by simp [h]
  simp only [h1, h2, Bool.false_eq_true, if_false, if_true]
  cases List.find? (fun o => o.nkey == m.nkey) opens <;> rfl

theorem notesGo_cons_other (m : Msg) (h1 : m.ty ≠ .noteOn) (h2 : m.ty ≠ .noteOff) (ms opens : List Msg) :
    notesGo (m :: ms) opens = notesGo ms opens := by
  simp [notesGo, h1, h2]

/-- save and load at the same resolution relabel the channel of every note to 0 and change nothing else,
    for a sequence whose notes are on one channel and carry a velocity -/
theorem notesGo_noteOf (c0 : Int) : ∀ (L opens : List Msg),
    (∀ m ∈ L, (m.ty = .noteOn ∨ m.ty = .noteOff) → m.ch = c0) → (∀ m ∈ L, m.ty = .noteOn → m.vel ≠ pyNone) →
    (∀ o ∈ opens, o.ty = .noteOn ∧ o.ch = c0 ∧ o.vel ≠ pyNone) →
    notesGo (L.filterMap noteOf) (opens.filterMap noteOf)
      = (notesGo L opens).map (fun n => { n with ch := 0 }) := by
  intro L
  induction L with
  | nil => intro opens _ _ _; rfl
  | cons m ms ih =>
    intro opens hch hvel ho
    have hch' : ∀ x ∈ ms, (x.ty = .noteOn ∨ x.ty = .noteOff) → x.ch = c0 :=
      fun x hx => hch x (List.mem_cons_of_mem _ hx)
    have hvel' : ∀ x ∈ ms, x.ty = .noteOn → x.vel ≠ pyNone := fun x hx => hvel x (List.mem_cons_of_mem _ hx)
    by_cases hon : m.ty = .noteOn
    · have hc := hch m List.mem_cons_self (Or.inl hon)
      have hv := hvel m List.mem_cons_self hon
      have hk' : m.nkey = (c0, m.note) := by simp [Msg.nkey, hc]
      rw [List.filterMap_cons, noteOf_on m hon hv]
      show notesGo (Msg.mkOn 0 m.note m.vel m.time :: ms.filterMap noteOf) _ = _
      rw [notesGo_cons_on _ rfl, notesGo_cons_on m hon]
      have := ih (m :: opens.filter (fun o => o.nkey != m.nkey)) hch' hvel' (by
        intro o ho'
        rcases List.mem_cons.1 ho' with rfl | ho'
        · exact ⟨hon, hc, hv⟩
        · exact ho o (List.mem_filter.1 ho').1)
      rw [List.filterMap_cons, noteOf_on m hon hv] at this
      rw [← this, hk', ← filter_filterMap_noteOf c0 m.note opens ho]
      rfl
    · by_cases hoff : m.ty = .noteOff
      · have hc := hch m List.mem_cons_self (Or.inr hoff)
        have e : (m :: ms).filterMap noteOf = Msg.mkOff 0 m.note m.time :: ms.filterMap noteOf := by
          simp [noteOf, hoff]
        have hk' : m.nkey = (c0, m.note) := by simp [Msg.nkey, hc]
        have hkk : (Msg.mkOff 0 m.note m.time).nkey = (0, m.note) := rfl
        rw [e, notesGo_cons_off _ rfl, notesGo_cons_off m hoff, hkk, hk',
          find_filterMap_noteOf c0 m.note opens ho]
        cases hf : opens.find? (fun o => o.nkey == (c0, m.note)) with
        | none =>
          simp only [Option.map_none]
          exact ih opens hch' hvel' ho
        | some o =>
          simp only [Option.map_some, List.map_cons]
          rw [filter_filterMap_noteOf c0 m.note opens ho,
            ih (opens.filter (fun x => x.nkey != (c0, m.note))) hch' hvel'
              (fun o ho' => ho o (List.mem_filter.1 ho').1)]
          rfl
      · have e : (m :: ms).filterMap noteOf = ms.filterMap noteOf := by simp [noteOf, hon, hoff]
        rw [e, notesGo_cons_other m hon hoff]
        exact ih opens hch' hvel' ho

/-- the per-key note events of loaded sequence `i` are those of the saved sequence (relabelled to channel 0) -/
theorem saved_proj (pp : Int) (hp : 0 < pp) (rels : List (List Msg)) (hS : ∀ r ∈ rels, SavedC r)
    (out : List Seq)
    (h : convert pp pp (rels.map toMido) ((List.range rels.length).map (fun i => [i])) (List.range rels.length) 0
      = .ok out)
    (i : Nat) (r : List Msg) (s s' : Seq) (a : List Msg) (hr : rels[i]? = some r) (ho : out[i]? = some s)
    (ha : s.readAbs = Except.ok (s', a)) :
    ∀ k, P k a = P k ((eventsRel r).filterMap noteOf) := by
  obtain ⟨hnd, hd⟩ := savedC_tracks pp hp rels hS
  obtain ⟨s0, M, _, _, hM, _, gt, hgt, hout⟩ := convert_shape pp pp hp hp _ _ _ 0 out hnd hd h
  have hi : i < rels.length := by
    rcases Nat.lt_or_ge i rels.length with h | h
    · exact h
    · rw [List.getElem?_eq_none h] at hr; simp at hr
  obtain ⟨h1, h2, h3, h4, _, c, h5⟩ := hS r (List.mem_of_getElem? hr)
  have hslot : slotA pp pp (rels.map toMido) i = curMsgs pp pp 0 (toMido r) := by
    have : rels[i] = r := by
      have := List.getElem?_eq_getElem hi
      rw [hr] at this; exact (Option.some.inj this).symm
    simp [slotA, hi, this]
  obtain ⟨heq, hY⟩ := saved_keyOK pp hp r h1 h2 h3 h4 c h5
  have hga := (saved_track pp hp r h1 h2 h3 h4 c h5).2.1
  rw [hout] at ho
  have hrel : (gmerge (slotA pp pp (rels.map toMido)) [i]).rel = C15.mergeRel [V (curMsgs pp pp 0 (toMido r))] := by
    rw [gmerge_rel, ← hslot]; rfl
  obtain ⟨q1, q2⟩ := single_proj _ M hga hY hM s0.defCh
  intro k
  rw [← heq]
  rcases out_abs _ _ 0 s0.defCh M gt hgt i [i] (groups_range_get _ i hi) s s' a ho ha with ⟨_, e⟩ | ⟨_, e⟩
  · rw [e, hrel]; exact q1 k
  · rw [e, hrel]; exact q2 k

/-- lists with the same per-key note events have the same notes (up to the interleaving of the keys) -/
theorem notesOf_perm_of_proj (A B : List Msg) (h : ∀ k, P k A = P k B) : (notesOf A).Perm (notesOf B) := by
  rw [List.perm_iff_count]
  intro n
  rw [NotesL.notesOf_filter_count A, NotesL.notesOf_filter_count B]
  have := h (n.ch, n.pitch)
  unfold P at this
  rw [this]

/-- the signature events a saved sequence writes: no channel, fields as saved -/
theorem toMidoGo_sig (r : List Msg) : ∀ (buf : Int), ∀ e ∈ toMidoGo buf r,
    (e.ty = .timeSignature ∨ e.ty = .keySignature) →
      e.ch = pyNone ∧ ∃ m ∈ r, m.ty = e.ty ∧ m.num = e.num ∧ m.den = e.den ∧ m.key = e.key := by
  induction r with
  | nil => intro buf e he; simp [toMidoGo] at he
  | cons m ms ih =>
    intro buf e he hty
    have lift : ∀ buf', e ∈ toMidoGo buf' ms →
        e.ch = pyNone ∧ ∃ x ∈ m :: ms, x.ty = e.ty ∧ x.num = e.num ∧ x.den = e.den ∧ x.key = e.key := by
      intro buf' h'
      obtain ⟨h1, x, hx, h2⟩ := ih buf' e h' hty
      exact ⟨h1, x, List.mem_cons_of_mem _ hx, h2⟩
    cases hm : m.ty <;> simp only [toMidoGo, hm] at he
    case timeSignature =>
      rcases List.mem_cons.1 he with rfl | he
      · exact ⟨rfl, m, List.mem_cons_self, hm, rfl, rfl, rfl⟩
      · exact lift _ he
    case keySignature =>
      rcases List.mem_cons.1 he with rfl | he
      · exact ⟨rfl, m, List.mem_cons_self, hm, rfl, rfl, rfl⟩
      · exact lift _ he
    case noteOn =>
      rcases List.mem_cons.1 he with rfl | he
      · simp at hty
      · exact lift _ he
    case noteOff =>
      rcases List.mem_cons.1 he with rfl | he
      · simp at hty
      · exact lift _ he
    case controlChange =>
      rcases List.mem_cons.1 he with rfl | he
      · simp at hty
      · exact lift _ he
    all_goals exact lift _ he


/-! ## C12: the signature events a saved file contains -/

def isSigB (m : Msg) : Bool := m.ty == .timeSignature || m.ty == .keySignature
/-- a meta message has no channel -/
def noCh (m : Msg) : Msg := { m with ch := pyNone }

theorem sigEvs_cumulate (pp : Int) (hp : 0 < pp) (evs : List MidiEv) : ∀ ticks,
    sigEvs pp pp ticks evs = (cumulate ticks evs).filter isSigB := by
  induction evs with
  | nil => intro ticks; rfl
  | cons e es ih =>
    intro ticks
    simp only [sigEvs, cumulate, List.filter_cons, ih, exactPos_same pp hp]
    by_cases h : e.ty = .timeSignature ∨ e.ty = .keySignature
    · have : isSigB { e with time := ticks + e.time } = true := by
        rcases h with h | h <;> simp [isSigB, h]
      simp [h, this]
    · have : isSigB { e with time := ticks + e.time } = false := by
        simp only [not_or] at h
        simp [isSigB, h.1, h.2]
      simp [h, this]

theorem sigEvs_toMido (pp : Int) (hp : 0 < pp) (r : List Msg) (hn : ∀ m ∈ r, m.ty ≠ .wait → m.time = pyNone)
    (hw : NonNegWaits r) : sigEvs pp pp 0 (toMido r) = ((eventsRel r).filter isSigB).map noCh := by
  rw [sigEvs_cumulate pp hp, toMido_ticks_nonneg r hn hw]
  generalize eventsRel r = E
  induction E with
  | nil => rfl
  | cons m ms ih =>
    cases hty : m.ty <;>
      simp [emitted, isSigB, midiShape, noCh, hty, ih]

theorem flatMap_zipIdx_if {α β} (c : Nat → Bool) (f : α → List β) (l : List α) : ∀ k,
    (∀ i, k ≤ i → i < k + l.length → c i = true) →
    (l.zipIdx k).flatMap (fun p => if c p.2 then f p.1 else []) = l.flatMap f := by
  induction l with
  | nil => intro k _; rfl
  | cons x xs ih =>
    intro k h
    simp only [List.zipIdx_cons, List.flatMap_cons]
    rw [h k (Nat.le_refl _) (by simp), if_pos rfl,
      ih (k + 1) (fun i h1 h2 => h i (by omega) (by simp only [List.length_cons]; omega))]

theorem fileSigsL_saved (pp : Int) (hp : 0 < pp) (rels : List (List Msg))
    (hS : ∀ r ∈ rels, NonNegWaits r ∧ ∀ m ∈ r, m.ty ≠ .wait → m.time = pyNone) :
    fileSigsL pp pp ((List.range rels.length).map (fun i => [i])) (List.range rels.length) (rels.map toMido).zipIdx
      = ((rels.flatMap eventsRel).filter isSigB).map noCh := by
  unfold fileSigsL
  rw [flatMap_zipIdx_if (consid _ _) (sigEvs pp pp 0) (rels.map toMido) 0 (by
    intro i _ hi
    simp only [List.length_map, Nat.zero_add] at hi
    simp [consid, hi])]
  rw [List.flatMap_map]
  induction rels with
  | nil => rfl
  | cons r rs ih =>
    obtain ⟨h1, h2⟩ := hS r List.mem_cons_self
    simp only [List.flatMap_cons, List.filter_append, List.map_append]
    rw [sigEvs_toMido pp hp r h2 h1, ih (fun x hx => hS x (List.mem_cons_of_mem _ hx))]

theorem latestL_saved (ty : MType) (hty : ty = .timeSignature ∨ ty = .keySignature) (t : Int) (X : List Msg) :
    latestL ty ((X.filter isSigB).map noCh) t = (latestL ty X t).map noCh := by
  rw [latestL_map ty t noCh _ (fun m _ => ⟨rfl, rfl⟩), latestL_filter ty t (X.filter isSigB), List.filter_filter,
    latestL_filter ty t X]
  congr 2
  apply List.filter_congr
  intro m _
  by_cases h : m.ty = ty
  · rcases hty with rfl | rfl <;> simp [isSigB, h]
  · simp [h]


/-! ## a normalised track sounds like the raw track when every note is eventually closed -/

/-- for a legal absolute view in which every key ends at depth 0 (orphan note-offs and overlapping notes
    allowed, unclosed notes not) whose normalisation has no zero-length note: `normalise` changes no sound -/
theorem V_sounding (x : List Msg) (hx : OkAbs x) (hclosed : ∀ k, depth k x 0 = 0) (hN : ∀ k, CG k (V x))
    (k : Int × Int) (t : Int) :
    SoundingAt (eventsAbs (V x)) k t ↔ SoundingAt (eventsAbs x) k t := by
  have hok := C04.toRel_ok x hx
  have hev : eventsRel (toRel x) = eventsAbs x := C04.toRel_events x hx
  have hokN : OkRel (normalise (toRel x)) := (C07.ok_out _ hok).1
  have hperm := C04.toAbs_events _ hokN
  have hcgN : ∀ k, CG k (eventsRel (normalise (toRel x))) := by
    intro k'
    have := hN k'
    unfold V at this
    rw [← cg_eventsAbs] at this
    exact cg_perm hperm this
  have hd : ∀ k, depth k (toRel x) 0 = 0 := by
    intro k'
    rw [← depth_events k' (toRel x) 0 0]
    show depth k' (eventsRel (toRel x)) 0 = 0
    rw [hev, depth_eventsAbs]
    exact hclosed k'
  have hs : Sorted (eventsRel (toRel x)) := events_sorted _ 0 hok.1
  unfold V
  rw [(readout _ hokN hcgN).2, sounding_fuse _ _ k t hs (normalise_fuse _ hok.1 hd k), hev]

end SCoda.L2
