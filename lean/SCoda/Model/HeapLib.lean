/-
  Support library of the identity translation `tools/py2lean_heap.py` → `Gen/HeapFns.lean`
  (the tie of `Model/HeapOps.lean` to the source, `Props/HeapTie.lean`).

  * `HM`: the monad of the generated code — a state monad over the cell heap of `Model/HeapOps.lean`
    with exceptions in which the heap SURVIVES an exception (Python: the writes a call performed before it
    raised persist; `HeapOps` models "Sequence references stale" the same way: the operation stops,
    nothing further is written).
  * cell primitives the translated statements use that `HeapOps` does not have (`setCmp`, blank cells).
  * the LINK TABLE: view-level methods that the routes of C16 call but that are not translated here
    (`normalise_relative`, `pad`, the two conversions, `concatenate`, `quantise_note_lengths`, `split`):
    each is the identity behaviour `HeapOps` gives it, with the value part taken from the oracle `Orc`.
    These stay assumptions of the identity model (tied by the sampled correspondence
    `harness/heap_corr.py`; their VALUE behaviour is tied by ViewTie / RelTie2 / AbsTie2).
  * `GOrc`: the oracle of the generated code = an `Orc` plus the value-level branch decisions of the
    translated bodies (`if duration < capacity:` in `Bar.__init__`), and `orcOf`, the `Orc` under which `HeapOps` takes the same decisions.

  Core Lean only.
-/
import SCoda.Model.HeapOps
namespace SCoda.HeapLib
open SCoda SCoda.HeapOps

/-- exceptions of the translated code that depend on identity-level state only -/
inductive HErr
  | stale        -- `SequenceException("Sequence references stale.")`
  | seqError     -- `SequenceException("Invalid sequence initialisation.")`
  | noneAttr     -- a method called on `None` / an attribute that was never assigned (`AttributeError`)
  | index        -- `IndexError`
  | fuel         -- a `while` loop ran out of fuel
  deriving DecidableEq, Repr, Inhabited

/-- heap state + exceptions; the heap survives an exception -/
def HM (α : Type) : Type := Heap → Except HErr α × Heap

namespace HM

/-- continue with the result of a computation, or stop with its exception -/
def bindRes {α β : Type} (r : Except HErr α × Heap) (f : α → HM β) : Except HErr β × Heap :=
  match r with
  | (.ok a, h) => f a h
  | (.error e, h) => (.error e, h)

instance : Monad HM where
  pure a := fun h => (.ok a, h)
  bind m f := fun h => bindRes (m h) f

/-- run a computation on a heap -/
abbrev run {α : Type} (m : HM α) (h : Heap) : Except HErr α × Heap := m h

/-- `raise` -/
def fail {α : Type} (e : HErr) : HM α := fun h => (.error e, h)
/-- the current heap (for reading attributes) -/
def get : HM Heap := fun h => (.ok h, h)
/-- a store -/
def modify (f : Heap → Heap) : HM Unit := fun h => (.ok (), f h)
/-- an allocation (or any total heap function returning a value) -/
def alloc {α : Type} (f : Heap → Heap × α) : HM α := fun h => (.ok (f h).2, (f h).1)

/-- an `Optional` reference that must not be `None` (a method is called on it) -/
def deref {α : Type} (x : Option α) : HM α :=
  match x with
  | some a => pure a
  | none => fail .noneAttr

/-- `xs[i]` for a constant `i ≥ 0` -/
def index {α : Type} (xs : List α) (i : Nat) : HM α :=
  match xs[i]? with
  | some a => pure a
  | none => fail .index

/-- Python `list.insert(i, x)`: a negative index counts from the end, out-of-range indices are clipped -/
def pyInsert {α : Type} (x : α) (i : Int) (l : List α) : List α :=
  if 0 ≤ i then insertAt x i.toNat l else insertAt x (l.length - (-i).toNat) l

/-- `try: body finally: fin` (no handlers): `fin` runs on both exits; an exception of `body` propagates -/
def tryFinally {α : Type} (body : HM α) (fin : HM Unit) : HM α := fun h =>
  match body h with
  | (.ok a, h') => bindRes (fin h') (fun _ => pure a)
  | (.error e, h') => (.error e, (fin h').2)

/-- a list comprehension `[f(x) for x in xs]` whose element expression has effects -/
def mapM {α β : Type} (f : α → HM β) : List α → HM (List β)
  | [] => pure []
  | x :: xs => do
    let y ← f x
    let ys ← mapM f xs
    pure (y :: ys)

/-- the same where every element gets its own oracle tag: `tag`, `mix tag step`, … (the names
    `HeapOps.barCopies` / `trkCopies` give the oracle queries of the successive elements) -/
def mapTag {α β : Type} (f : Nat → α → HM β) (step : Nat) : Nat → List α → HM (List β)
  | _, [] => pure []
  | t, x :: xs => do
    let y ← f t x
    let ys ← mapTag f step (mix t step) xs
    pure (y :: ys)

/-- a statement-level `for x in xs:` without loop-carried locals -/
def forM {α : Type} (f : α → HM Unit) : List α → HM Unit
  | [] => pure ()
  | x :: xs => do
    f x
    forM f xs

end HM

/-! ## blank cells (`object.__new__`: no attribute assigned yet) and stores `HeapOps` lacks -/

/-- a `Message` object before `__init__` ran -/
def blankMsg : Msg := { ty := .internal, ch := pyNone }

def _root_.SCoda.HeapOps.Heap.setCmp (h : Heap) (i : Nat) (ts : List Nat) : Heap := { h with cmp := fun j => if j = i then ts else h.cmp j }

/-- `object.__new__(Message)` … -/
def newMessage : HM Nat := HM.alloc (fun h => h.newMsg blankMsg)
/-- a view object (`AbsoluteSequence` / `RelativeSequence`); its `_messages` list is part of the cell -/
def newView : HM Nat := HM.alloc (fun h => h.newLst [])
def newSequence : HM Nat := HM.alloc (fun h => h.newSeq {})
def newBarObj : HM Nat := HM.alloc (fun h => h.newBar {})
def newTrack : HM Nat := HM.alloc (fun h => h.newTrk {})
def newComposition : HM Nat := HM.alloc (fun h => h.newCmp [])

/-! ## the oracle of the generated code -/

/-- `Orc` plus the value-level branch decisions of the translated bodies, as functions of a tag and of the
    message values of the relative view of the sequence the method works on -/
structure GOrc where
  orc : Orc
  /-- `duration < capacity` (bar.py:34) -/
  barPadDec : Nat → List Msg → Bool

/-- `program_changes[0].program` if there is a PROGRAM_CHANGE, else `None` (track.py:21-25, translated exactly) -/
def firstProgram (vs : List Msg) : Int :=
  match vs.filter (fun m => m.ty == .programChange) with
  | m :: _ => m.prog
  | [] => pyNone

/-- positions of the values satisfying `p`, counted from `k` -/
def positions (p : Msg → Bool) : Nat → List Msg → List Nat
  | _, [] => []
  | k, m :: ms => if p m then k :: positions p (k + 1) ms else positions p (k + 1) ms

/-- the `Orc` under which `HeapOps` takes the decisions of the generated code run with `g`:
    * `barPadMsg`: the WAIT that `pad` appends if `Bar.__init__` calls it, `none` if it does not;
    * `perm`: the only re-ordering in the translated routes is the filter of bar.py:47-48
      (`msg.message_type != MessageType.TIME_SIGNATURE`), translated exactly;
    * `tsMsg` (the `Message(TIME_SIGNATURE, channel=default_channel, numerator, denominator)` of `Bar.__init__`) is the oracle's:
      its channel is the value-level `default_channel`;
    * `program`: the program of the first PROGRAM_CHANGE the track's bars hold, `None` if there is none: `Track.__init__`
      is translated exactly (`firstProgram`) -/
def orcOf (g : GOrc) : Orc :=
  { g.orc with
    barPadMsg := fun t vs => if g.barPadDec t vs then g.orc.padMsg t vs else none
    perm := fun _ vs => positions (fun m => m.ty != .timeSignature) 0 vs
    program := fun _ vs => firstProgram vs }

/-! ## link table: view-level methods that are not translated (identity behaviour as in `HeapOps`) -/

/-- `RelativeSequence.to_absolute_sequence()` (relative_sequence.py:38-69): a new view, all messages new -/
def relToAbsoluteSequence (o : Orc) (l : Nat) : HM Nat := HM.alloc (fun h => convView o.toAbs h l)
/-- `AbsoluteSequence.to_relative_sequence()` (absolute_sequence.py:32-55) -/
def absToRelativeSequence (o : Orc) (l : Nat) : HM Nat := HM.alloc (fun h => convView o.toRel h l)
/-- `RelativeSequence.normalise_relative()` (relative_sequence.py:91-169) -/
def relNormaliseRelative (o : Orc) (tag : Nat) (l : Nat) : HM Unit := HM.modify (fun h => rebuildView (o.plan tag) h l)
/-- `RelativeSequence.pad(n)` (relative_sequence.py:171-193) -/
def relPad (o : Orc) (tag : Nat) (l : Nat) : HM Unit := HM.modify (fun h => padView (o.padMsg tag) h l)
/-- `AbsoluteSequence.quantise_note_lengths(…)` (absolute_sequence.py:296-374) -/
def absQuantiseNoteLengths (o : Orc) (tag : Nat) (l : Nat) : HM Unit := HM.modify (fun h => absOpView o tag h l)
/-- `RelativeSequence.split(capacities)` (relative_sequence.py:199-288) -/
def relSplit (o : Orc) (tag : Nat) (l : Nat) : HM (List Nat) := HM.alloc (fun h => splitView (o.splitPlan tag) h l)

end SCoda.HeapLib
