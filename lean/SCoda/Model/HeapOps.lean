/-
  Concrete heap model for C16 (audit item A2).  `Model/Heap.lean` has one store of messages and an
  object that is two lists of identities; it cannot say that two `Sequence` wrappers hold the *same*
  `AbsoluteSequence`, that two views hold the same `_messages` list, or that two `Bar`s hold the same
  `Sequence`.  Here every mutable Python object of the modelled files is a cell with an identity:

  * message cells      `msg : Nat → Msg`              (`scoda.elements.message.Message`)
  * list cells         `lst : Nat → List Nat`         an `AbsoluteSequence` / `RelativeSequence` object
                                                      together with its `_messages` list (the raw Python
                                                      list is created in `AbstractSequence.__init__`
                                                      (abstract_sequence.py:13-18, `extend`, never aliased)
                                                      or assigned from a local that is dropped
                                                      (relative_sequence.py:169,364, absolute_sequence.py:293,373),
                                                      so it is owned by exactly one view object: re-binding
                                                      `_messages` is a write of the list cell)
  * sequence cells     `seq : Nat → SeqCell`          `Sequence`: `_abs`, `_rel`, `_abs_stale`, `_rel_stale`
  * bar / track / composition cells                  `Bar.sequence` + scalars, `Track.bars` + scalars, `Composition.tracks`

  Allocation is bump allocation per kind.  Every operation follows the Python source with respect to
  IDENTITY: which objects are created, which existing objects are written, which identities end up
  in which container.  The VALUE part (which messages a normalisation keeps, where a split cuts, what
  a quantisation writes into `time`) is an arbitrary function taken from an oracle `Orc`; the
  theorems of `Props/C16c.lean` hold for every oracle.

  Exceptions: "Sequence references stale" (both flags set) is modelled (the operation stops, nothing
  further is written).  `BarException` / `SequenceException` raised for value reasons are not modelled:
  a call that raises has performed a prefix of the writes of the successful call.

  Tie to the code: `lean/HeapDriver.lean` runs a history of `HOp`s with an oracle replayed from tables,
  and prints the caller's objects with identities renamed to first-occurrence numbers;
  `harness/heap_corr.py` runs the same history on the real objects, records the tables while doing so,
  and prints the real objects the same way with `id()`.  (10 749 random histories over 37 operation kinds
  agreed line for line when this file was written; the unrepaired `split` is reported as a mismatch.)

  Core Lean only; everything is structural recursion, so `decide` / `#eval` compute.
-/
import SCoda.Model.Msg
namespace SCoda.HeapOps
open SCoda

/-! ## cells -/

inductive Kind | msg | lst | seq | bar | trk | cmp
  deriving DecidableEq, Repr, Inhabited

/-- a cell address: kind and identity (bump-allocated per kind) -/
abbrev Cell := Kind × Nat

/-- `Sequence`: `_abs`, `_rel` (`none` = `None` / attribute never assigned, sequence.py:35-59) and the two stale flags -/
structure SeqCell where
  abs : Option Nat := none
  rel : Option Nat := none
  absStale : Bool := true
  relStale : Bool := true
  deriving DecidableEq, Repr, Inhabited

/-- `Bar`: `sequence`, `time_signature_numerator`, `time_signature_denominator`, `key_signature` (bar.py:17-20) -/
structure BarCell where
  seq : Nat := 0
  num : Int := 4
  den : Int := 4
  key : Int := pyNone
  deriving DecidableEq, Repr, Inhabited

/-- `Track`: `bars`, `name`, `program` (track.py:16-18) -/
structure TrkCell where
  bars : List Nat := []
  name : Int := pyNone
  program : Int := pyNone
  deriving DecidableEq, Repr, Inhabited

structure Heap where
  msg : Nat → Msg := fun _ => default
  lst : Nat → List Nat := fun _ => []
  seq : Nat → SeqCell := fun _ => {}
  bar : Nat → BarCell := fun _ => {}
  trk : Nat → TrkCell := fun _ => {}
  cmp : Nat → List Nat := fun _ => []
  nMsg : Nat := 0
  nLst : Nat := 0
  nSeq : Nat := 0
  nBar : Nat := 0
  nTrk : Nat := 0
  nCmp : Nat := 0

namespace Heap

def empty : Heap := {}

/-- the allocation pointer of a kind: identities `< next k` are allocated -/
def next (h : Heap) : Kind → Nat
  | .msg => h.nMsg | .lst => h.nLst | .seq => h.nSeq | .bar => h.nBar | .trk => h.nTrk | .cmp => h.nCmp

def alloc (h : Heap) (c : Cell) : Prop := c.2 < h.next c.1

instance (h : Heap) (c : Cell) : Decidable (h.alloc c) := by unfold alloc; infer_instance

end Heap

/-- the content of a cell -/
inductive Val
  | msg (m : Msg) | lst (ids : List Nat) | seq (c : SeqCell) | bar (c : BarCell) | trk (c : TrkCell)
  | cmp (ts : List Nat)
  deriving DecidableEq, Repr

def optCell : Option Nat → List Cell
  | none => []
  | some l => [(.lst, l)]

/-- the cells a cell points to -/
def Val.ptrs : Val → List Cell
  | .msg _ => []
  | .lst ids => ids.map (fun i => (Kind.msg, i))
  | .seq c => optCell c.abs ++ optCell c.rel
  | .bar c => [(.seq, c.seq)]
  | .trk c => c.bars.map (fun b => (Kind.bar, b))
  | .cmp ts => ts.map (fun t => (Kind.trk, t))

namespace Heap

def get (h : Heap) : Cell → Val
  | (.msg, i) => .msg (h.msg i)
  | (.lst, i) => .lst (h.lst i)
  | (.seq, i) => .seq (h.seq i)
  | (.bar, i) => .bar (h.bar i)
  | (.trk, i) => .trk (h.trk i)
  | (.cmp, i) => .cmp (h.cmp i)

/-! ## primitives: allocate a cell, write a cell -/

def newMsg (h : Heap) (m : Msg) : Heap × Nat :=
  ({ h with msg := fun j => if j = h.nMsg then m else h.msg j, nMsg := h.nMsg + 1 }, h.nMsg)
def newLst (h : Heap) (ids : List Nat) : Heap × Nat :=
  ({ h with lst := fun j => if j = h.nLst then ids else h.lst j, nLst := h.nLst + 1 }, h.nLst)
def newSeq (h : Heap) (c : SeqCell) : Heap × Nat :=
  ({ h with seq := fun j => if j = h.nSeq then c else h.seq j, nSeq := h.nSeq + 1 }, h.nSeq)
def newBar (h : Heap) (c : BarCell) : Heap × Nat :=
  ({ h with bar := fun j => if j = h.nBar then c else h.bar j, nBar := h.nBar + 1 }, h.nBar)
def newTrk (h : Heap) (c : TrkCell) : Heap × Nat :=
  ({ h with trk := fun j => if j = h.nTrk then c else h.trk j, nTrk := h.nTrk + 1 }, h.nTrk)
def newCmp (h : Heap) (ts : List Nat) : Heap × Nat :=
  ({ h with cmp := fun j => if j = h.nCmp then ts else h.cmp j, nCmp := h.nCmp + 1 }, h.nCmp)

def setMsg (h : Heap) (i : Nat) (m : Msg) : Heap := { h with msg := fun j => if j = i then m else h.msg j }
def setLst (h : Heap) (i : Nat) (ids : List Nat) : Heap := { h with lst := fun j => if j = i then ids else h.lst j }
def setSeq (h : Heap) (i : Nat) (c : SeqCell) : Heap := { h with seq := fun j => if j = i then c else h.seq j }
def setBar (h : Heap) (i : Nat) (c : BarCell) : Heap := { h with bar := fun j => if j = i then c else h.bar j }
def setTrk (h : Heap) (i : Nat) (c : TrkCell) : Heap := { h with trk := fun j => if j = i then c else h.trk j }

/-- the message values behind a list of identities -/
def vals (h : Heap) (ids : List Nat) : List Msg := ids.map h.msg

/-- the message values of a view object -/
def viewVals (h : Heap) (l : Nat) : List Msg := h.vals (h.lst l)

end Heap

/-- the message values behind an optional view pointer -/
def optVals (h : Heap) : Option Nat → List Msg
  | none => []
  | some l => h.viewVals l

/-! ## reachability -/

/-- cells reachable from `c` in at most `n` pointer steps -/
def reachN (h : Heap) : Nat → Cell → List Cell
  | 0, c => [c]
  | n + 1, c => c :: (h.get c).ptrs.flatMap (reachN h n)

/-- all cells reachable from a root (composition → tracks → bars → sequence → views → messages is
    five steps; shorter for the lower kinds) -/
def reach (h : Heap) (c : Cell) : List Cell := reachN h 5 c

def reachAll (h : Heap) (roots : List Cell) : List Cell := roots.flatMap (reach h)

/-! ## the value oracle -/

/-- one element of a rebuilt `_messages` list: the `k`-th message object of the source list is kept,
    or a new `Message(...)` is created -/
inductive Item
  | keep (k : Nat)
  | fresh (m : Msg)
  deriving DecidableEq, Repr

/-- the value-dependent decisions of the library, as arbitrary functions of a tag (standing for the
    scalar arguments of the call) and of the message values the call reads -/
structure Orc where
  /-- values of the messages `to_absolute_sequence` builds (relative_sequence.py:38-69) -/
  toAbs : List Msg → List Msg
  /-- values of the messages `to_relative_sequence` builds (absolute_sequence.py:32-55) -/
  toRel : List Msg → List Msg
  /-- new field values an in-place mutator writes into the messages of a view, position by position -/
  edit : Nat → List Msg → List Msg
  /-- the content of a re-built `_messages` list -/
  plan : Nat → List Msg → List Item
  /-- the re-ordering an in-place `sort` / `binary_insort` / filter applies: positions of the source list -/
  perm : Nat → List Msg → List Nat
  /-- the pieces `RelativeSequence.split` builds (relative_sequence.py:199-288) -/
  splitPlan : Nat → List Msg → List (List Item)
  /-- `pad`: the WAIT message appended, if any (relative_sequence.py:191-193) -/
  padMsg : Nat → List Msg → Option Msg
  /-- the same for the `pad(capacity)` inside `Bar.__init__` (bar.py:34-35; `none` also when the bar is
      already full and `pad` is not called) -/
  barPadMsg : Nat → List Msg → Option Msg
  /-- the signature and key `sequences_split_bars` gives a bar (sequence.py:499-510,537-538), as a
      function of the tag and of the message values of the piece the bar is built from -/
  barSig : Nat → List Msg → Int × Int × Int
  /-- the `program` a `Track` finds in its bars (track.py:21-25) -/
  program : Nat → List Msg → Int
  /-- the new `Message(...)` the `Bar` constructor inserts at index 0 (bar.py:48-51) -/
  tsMsg : Int → Int → Msg

/-- injective pairing, to derive distinct tags for nested calls -/
def mix (a b : Nat) : Nat := (a + b) * (a + b + 1) / 2 + b

/-! ## view level: an `AbsoluteSequence` / `RelativeSequence` object -/

/-- allocate new messages with the given values, in order -/
def newMsgs (h : Heap) : List Msg → Heap × List Nat
  | [] => (h, [])
  | m :: ms =>
    let a := h.newMsg m
    let r := newMsgs a.1 ms
    (r.1, a.2 :: r.2)

/-- `Message.copy()` (message.py:49-62): a new message with the same field values -/
def msgCopy (h : Heap) (i : Nat) : Heap × Nat := h.newMsg (h.msg i)

/-- a new view object whose messages are all new, with values `f` of the source values:
    `AbstractSequence.copy` with `f = id`, the two conversions with the oracle's functions -/
def convView (f : List Msg → List Msg) (h : Heap) (l : Nat) : Heap × Nat :=
  let r := newMsgs h (f (h.viewVals l))
  r.1.newLst r.2

/-- `AbstractSequence.copy()` (abstract_sequence.py:20-22):
    `self.__class__(messages=[msg.copy() for msg in self._messages])` -/
def copyView (h : Heap) (l : Nat) : Heap × Nat := convView id h l

/-- write new field values into message cells (`msg.channel = …`, `msg.time = …`, `msg.note += …`) -/
def writeMsgs (h : Heap) : List (Nat × Msg) → Heap
  | [] => h
  | (i, m) :: r => writeMsgs (h.setMsg i m) r

/-- an in-place mutator of a view: the messages of the list get new field values; no identity changes -/
def editView (g : List Msg → List Msg) (h : Heap) (l : Nat) : Heap :=
  writeMsgs h ((h.lst l).zip (g (h.viewVals l)))

/-- build a list of identities from kept source identities and newly allocated messages -/
def buildIds (h : Heap) (src : List Nat) : List Item → Heap × List Nat
  | [] => (h, [])
  | .keep k :: p =>
    let r := buildIds h src p
    (r.1, match src[k]? with | some i => i :: r.2 | none => r.2)
  | .fresh m :: p =>
    let a := h.newMsg m
    let r := buildIds a.1 src p
    (r.1, a.2 :: r.2)

/-- a rebuilder of a view: `self._messages = <kept message objects and new ones>` -/
def rebuildView (plan : List Msg → List Item) (h : Heap) (l : Nat) : Heap :=
  let r := buildIds h (h.lst l) (plan (h.viewVals l))
  r.1.setLst l r.2

/-- an in-place re-ordering / filtering of a view's list (`sort`, absolute_sequence.py:376-383):
    no message is created -/
def permView (p : List Msg → List Nat) (h : Heap) (l : Nat) : Heap :=
  h.setLst l ((p (h.viewVals l)).filterMap (fun k => (h.lst l)[k]?))

/-- `RelativeSequence.pad` (relative_sequence.py:171-193): at most one new WAIT message is appended -/
def padView (w : List Msg → Option Msg) (h : Heap) (l : Nat) : Heap :=
  match w (h.viewVals l) with
  | none => h
  | some m => let a := h.newMsg m; a.1.setLst l (a.1.lst l ++ [a.2])

/-- Python `list.insert(index, x)` for `index ≥ 0` -/
def insertAt {α} (x : α) : Nat → List α → List α
  | 0, l => x :: l
  | _ + 1, [] => [x]
  | n + 1, y :: ys => y :: insertAt x n ys

/-- `add_message(msg[, index])` (relative_sequence.py:73-78, absolute_sequence.py:59-61): the message
    OBJECT passed by the caller is put into the list -/
def insertView (h : Heap) (l : Nat) (i : Nat) (idx : Option Nat) : Heap :=
  h.setLst l (match idx with | some k => insertAt i k (h.lst l) | none => h.lst l ++ [i])

/-- `RelativeSequence.concatenate` (relative_sequence.py:80-89) / the loop of `AbsoluteSequence.merge`
    (absolute_sequence.py:175-177): the receiver's list is extended, argument by argument, with the
    ARGUMENT's message objects — the documented sharing -/
def extendView (h : Heap) (l : Nat) : List Nat → Heap
  | [] => h
  | a :: as => extendView (h.setLst l (h.lst l ++ h.lst a)) l as

/-- the pieces of `RelativeSequence.split`: new `RelativeSequence` objects holding message objects of
    the source list (each `working_memory.pop(0)` goes to one piece) and new messages -/
def splitPieces (h : Heap) (src : List Nat) : List (List Item) → Heap × List Nat
  | [] => (h, [])
  | p :: ps =>
    let r := buildIds h src p
    let a := r.1.newLst r.2
    let r2 := splitPieces a.1 src ps
    (r2.1, a.2 :: r2.2)

/-- `RelativeSequence.split(capacities)` (relative_sequence.py:199-288): the pieces SHARE message
    objects with `self` -/
def splitView (plan : List Msg → List (List Item)) (h : Heap) (l : Nat) : Heap × List Nat :=
  splitPieces h (h.lst l) (plan (h.viewVals l))

/-! ## `Sequence` -/

/-- `Sequence.__init__(absolute_sequence, relative_sequence)` (sequence.py:35-59) -/
def seqInit (h : Heap) : Option Nat → Option Nat → Heap × Nat
  | none, none =>
    let l := h.newLst []                              -- `self._abs = AbsoluteSequence()`
    l.1.newSeq { abs := some l.2, rel := none, absStale := false, relStale := true }
  | some a, none => h.newSeq { abs := some a, rel := none, absStale := false, relStale := true }
  | none, some r => h.newSeq { abs := none, rel := some r, absStale := true, relStale := false }
  | some a, some r => h.newSeq { abs := some a, rel := some r, absStale := false, relStale := false }

/-- the `abs` property (sequence.py:78-95); `none` = raises "Sequence references stale" -/
def getAbs (o : Orc) (h : Heap) (s : Nat) : Heap × Option Nat :=
  let c := h.seq s
  if c.absStale then
    if c.relStale then (h, none)
    else match c.rel with
      | none => (h, none)
      | some r =>
        let a := convView o.toAbs h r                 -- `self._rel.to_absolute_sequence()`
        (a.1.setSeq s { c with abs := some a.2, absStale := false }, some a.2)
  else (h, c.abs)

/-- the `rel` property (sequence.py:97-114) -/
def getRel (o : Orc) (h : Heap) (s : Nat) : Heap × Option Nat :=
  let c := h.seq s
  if c.relStale then
    if c.absStale then (h, none)
    else match c.abs with
      | none => (h, none)
      | some a =>
        let r := convView o.toRel h a                 -- `self._abs.to_relative_sequence()`
        (r.1.setSeq s { c with rel := some r.2, relStale := false }, some r.2)
  else (h, c.rel)

def invalidateAbs (h : Heap) (s : Nat) : Heap := h.setSeq s { h.seq s with absStale := true }
def invalidateRel (h : Heap) (s : Nat) : Heap := h.setSeq s { h.seq s with relStale := true }

/-- `refresh()` (sequence.py:124-135) -/
def refresh (o : Orc) (h : Heap) (s : Nat) : Heap :=
  let c := h.seq s
  if c.absStale && c.relStale then h else (getRel o (getAbs o h s).1 s).1

/-- `self.rel.<f>(…); self.invalidate_abs()` -/
def withRel (o : Orc) (h : Heap) (s : Nat) (f : Heap → Nat → Heap) : Heap :=
  let r := getRel o h s
  match r.2 with
  | none => r.1
  | some l => invalidateAbs (f r.1 l) s

/-- `self.abs.<f>(…); self.invalidate_rel()` -/
def withAbs (o : Orc) (h : Heap) (s : Nat) (f : Heap → Nat → Heap) : Heap :=
  let r := getAbs o h s
  match r.2 with
  | none => r.1
  | some l => invalidateRel (f r.1 l) s

/-- `cpy = None; if not stale: cpy = view.copy()` (sequence.py:62-67; the property `self.abs` / `self.rel`
    of a non-stale view returns `_abs` / `_rel` itself) -/
def copyOpt (h : Heap) (stale : Bool) (v : Option Nat) : Heap × Option Nat :=
  if stale then (h, none)
  else match v with
    | none => (h, none)
    | some a => let r := copyView h a; (r.1, some r.2)

/-- `for msg in self.messages_rel()` run to the end without editing (sequence.py:192-205): the relative
    view is read (regenerated if stale) and the absolute view invalidated -/
def iterRel (o : Orc) (h : Heap) (s : Nat) : Heap := withRel o h s (fun h _ => h)

/-- `Sequence.copy()` (sequence.py:61-70): exactly the non-stale views are copied -/
def seqCopy (h : Heap) (s : Nat) : Heap × Nat :=
  let c := h.seq s
  let ra := copyOpt h c.absStale c.abs
  let rr := copyOpt ra.1 c.relStale c.rel
  seqInit rr.1 ra.2 rr.2

/-- reads that go through `self.abs` (`get_sequence_duration`, `get_message_times_of_type`,
    `is_channel_consistent`, …): the view may be regenerated -/
def readAbs (o : Orc) (h : Heap) (s : Nat) : Heap := (getAbs o h s).1
/-- reads that go through `self.rel` (`is_empty`, `to_midi_track`, `get_sequence_duration_relation`) -/
def readRel (o : Orc) (h : Heap) (s : Nat) : Heap := (getRel o h s).1

/-- `get_message_pairings` & co. (sequence.py:306-345 → absolute_sequence.py:405): the absolute list
    is sorted in place, the relative view is NOT invalidated -/
def pairings (o : Orc) (tag : Nat) (h : Heap) (s : Nat) : Heap :=
  let r := getAbs o h s
  match r.2 with
  | none => r.1
  | some l => permView (o.perm tag) r.1 l

/-- `equals(other, …)` / `__eq__` (sequence.py:72-76,159-169 → absolute_sequence.py:122-123): both
    absolute views are regenerated if stale and sorted in place -/
def seqEquals (o : Orc) (tag : Nat) (h : Heap) (s t : Nat) : Heap :=
  let r := getAbs o h s
  match r.2 with
  | none => r.1
  | some l =>
    let r2 := getAbs o r.1 t
    match r2.2 with
    | none => r2.1
    | some l2 => permView (o.perm (mix tag 1)) (permView (o.perm tag) r2.1 l) l2

/-! ### in-place mutators on the relative view -/

/-- `set_channel(channel)` (sequence.py:256-259 → relative_sequence.py:195-197) -/
def setChannel (o : Orc) (h : Heap) (s : Nat) (ch : Int) : Heap :=
  withRel o h s (editView (fun ms => ms.map (fun m => { m with ch := ch })))

/-- iterating `messages_rel()` to the end and editing the yielded messages (sequence.py:192-205) -/
def iterEditRel (o : Orc) (tag : Nat) (h : Heap) (s : Nat) : Heap :=
  withRel o h s (editView (o.edit tag))

/-- iterating `messages_abs()` and editing the yielded messages (sequence.py:177-190) -/
def iterEditAbs (o : Orc) (tag : Nat) (h : Heap) (s : Nat) : Heap :=
  withAbs o h s (editView (o.edit tag))

/-! ### mutators on the absolute view: messages are written in place and the list is re-built from
    kept message objects and new ones -/

/-- `AbsoluteSequence.quantise` (absolute_sequence.py:184-294: `message_to_append.time = …` on the
    list's own messages, new NOTE_OFFs, `self._messages = quantised_messages`, sort),
    `quantise_note_lengths` (296-374: in-place sort by `get_message_pairings`, `message_pairing[1].time
    += correction`, imputed NOTE_OFFs, re-bound list, sort) and `cutoff` (67-90: sort, `add_message` of
    new NOTE_OFFs, `message_pairing[1].time = …`, sort) have the same identity behaviour -/
def absOpView (o : Orc) (tag : Nat) (h : Heap) (l : Nat) : Heap :=
  rebuildView (o.plan tag) (editView (o.edit tag) h l) l

/-- `quantise(step_sizes)` (sequence.py:287-290) -/
def quantise (o : Orc) (tag : Nat) (h : Heap) (s : Nat) : Heap := withAbs o h s (absOpView o tag)
/-- `quantise_note_lengths(…)` (sequence.py:292-295) -/
def quantiseNoteLengths (o : Orc) (tag : Nat) (h : Heap) (s : Nat) : Heap := withAbs o h s (absOpView o tag)
/-- `cutoff(maximum_length, reduced_length)` (sequence.py:154-157) -/
def cutoff (o : Orc) (tag : Nat) (h : Heap) (s : Nat) : Heap := withAbs o h s (absOpView o tag)

/-! ### rebuilders on the relative view -/

/-- `normalise()` (sequence.py:207-210 → relative_sequence.py:91-169: kept message objects and new
    consolidated WAITs, `self._messages = messages_normalized`) -/
def normalise (o : Orc) (tag : Nat) (h : Heap) (s : Nat) : Heap := withRel o h s (rebuildView (o.plan tag))

/-- `pad(padding_length)` (sequence.py:240-243) -/
def pad (o : Orc) (tag : Nat) (h : Heap) (s : Nat) : Heap := withRel o h s (padView (o.padMsg tag))

/-- `add_relative_message(msg, index)` (sequence.py:144-147): `i` is the caller's message object -/
def addRel (o : Orc) (h : Heap) (s : Nat) (i : Nat) (idx : Option Nat) : Heap :=
  withRel o h s (fun h l => insertView h l i idx)

/-- `add_absolute_message(msg)` (sequence.py:139-142): `binary_insort` puts the caller's message object
    at a value-dependent position `idx` -/
def addAbs (o : Orc) (h : Heap) (s : Nat) (i : Nat) (idx : Nat) : Heap :=
  withAbs o h s (fun h l => insertView h l i (some idx))

/-- `quantise_and_normalise(…)` (sequence.py:297-302) -/
def quantiseAndNormalise (o : Orc) (tag : Nat) (h : Heap) (s : Nat) : Heap :=
  normalise o (mix tag 2) (quantiseNoteLengths o (mix tag 1) (quantise o tag h s) s) s

/-- `transpose(transpose_by)` (sequence.py:275-285): `shifted` is the value-dependent return value -/
def transpose (o : Orc) (tag : Nat) (shifted : Bool) (h : Heap) (s : Nat) : Heap :=
  let h1 := withRel o h s (editView (o.edit tag))
  if shifted then quantiseNoteLengths o (mix tag 2) (normalise o (mix tag 1) h1 s) s else h1

/-- `scale(factor, …)` for `factor ≥ 1` (sequence.py:267-273 → relative_sequence.py:306-311) -/
def scaleUp (o : Orc) (tag : Nat) (quantiseAfterwards : Bool) (h : Heap) (s : Nat) : Heap :=
  let h1 := withRel o h s (editView (o.edit tag))
  if quantiseAfterwards then quantiseAndNormalise o (mix tag 1) h1 s else h1

/-- `overwrite_absolute_messages(messages)` (sequence.py:212-224): a NEW `AbsoluteSequence` holding the
    caller's message objects (inserted in time order) -/
def overwriteAbs (o : Orc) (tag : Nat) (h : Heap) (s : Nat) (ids : List Nat) : Heap :=
  let a := h.newLst ((o.perm tag (h.vals ids)).filterMap (fun k => ids[k]?))
  a.1.setSeq s { a.1.seq s with abs := some a.2, absStale := false, relStale := true }

/-- `overwrite_relative_messages(messages)` (sequence.py:226-238) -/
def overwriteRel (h : Heap) (s : Nat) (ids : List Nat) : Heap :=
  let a := h.newLst ids
  a.1.setSeq s { a.1.seq s with rel := some a.2, relStale := false, absStale := true }

/-! ### sharers -/

/-- `[seq.rel for seq in sequences]`: every argument's relative view is read (and regenerated if
    stale: a write of the ARGUMENT's wrapper); `none` if one of them raises -/
def getRels (o : Orc) (h : Heap) : List Nat → Heap × Option (List Nat)
  | [] => (h, some [])
  | s :: ss =>
    let r := getRel o h s
    match r.2 with
    | none => (r.1, none)
    | some l =>
      let r2 := getRels o r.1 ss
      (r2.1, r2.2.map (fun ls => l :: ls))

def getAbss (o : Orc) (h : Heap) : List Nat → Heap × Option (List Nat)
  | [] => (h, some [])
  | s :: ss =>
    let r := getAbs o h s
    match r.2 with
    | none => (r.1, none)
    | some l =>
      let r2 := getAbss o r.1 ss
      (r2.1, r2.2.map (fun ls => l :: ls))

/-- `concatenate(sequences)` (sequence.py:149-152) -/
def concatenate (o : Orc) (h : Heap) (s : Nat) (args : List Nat) : Heap :=
  let r := getRel o h s                               -- `self.rel` is evaluated first
  match r.2 with
  | none => r.1
  | some l =>
    let ra := getRels o r.1 args
    match ra.2 with
    | none => ra.1
    | some ls => invalidateAbs (extendView ra.1 l ls) s

/-- `merge(sequences)` (sequence.py:171-175 → absolute_sequence.py:165-179) -/
def merge (o : Orc) (tag : Nat) (h : Heap) (s : Nat) (args : List Nat) : Heap :=
  let r := getAbs o h s
  match r.2 with
  | none => r.1
  | some l =>
    let ra := getAbss o r.1 args
    match ra.2 with
    | none => ra.1
    | some ls =>
      let h1 := permView (o.perm tag) (extendView ra.1 l ls) l        -- `normalise_absolute()`: sort
      normalise o (mix tag 1) (invalidateRel h1 s) s

/-! ### `split` -/

/-- `[Sequence(relative_sequence=seq.copy()) for seq in relative_sequences]` (sequence.py:264, after
    the repair of D13): every piece gets its own message objects and its own view object -/
def wrapCopies (h : Heap) : List Nat → Heap × List Nat
  | [] => (h, [])
  | p :: ps =>
    let c := copyView h p
    let s := seqInit c.1 none (some c.2)
    let r := wrapCopies s.1 ps
    (r.1, s.2 :: r.2)

/-- `[Sequence(relative_sequence=seq) for seq in …]`: the wrapper holds the piece itself
    (sequence.py:518, and `split` before the repair of D13) -/
def wrapShared (h : Heap) : List Nat → Heap × List Nat
  | [] => (h, [])
  | p :: ps =>
    let s := seqInit h none (some p)
    let r := wrapShared s.1 ps
    (r.1, s.2 :: r.2)

/-- `Sequence.split(capacities)` (sequence.py:261-265) -/
def split (o : Orc) (tag : Nat) (h : Heap) (s : Nat) : Heap × List Nat :=
  let r := getRel o h s
  match r.2 with
  | none => (r.1, [])
  | some l =>
    let p := splitView (o.splitPlan tag) r.1 l
    wrapCopies p.1 p.2

/-- NEGATIVE CONTROL (D13): `split` as it was before the repair,
    `sequences = [Sequence(relative_sequence=seq) for seq in relative_sequences]` -/
def splitUnrepaired (o : Orc) (tag : Nat) (h : Heap) (s : Nat) : Heap × List Nat :=
  let r := getRel o h s
  match r.2 with
  | none => (r.1, [])
  | some l =>
    let p := splitView (o.splitPlan tag) r.1 l
    wrapShared p.1 p.2

/-! ## `Bar` -/

/-- the end of `Bar.__init__` (bar.py:47-54); `l` is the relative view just iterated by `messages_rel()` -/
def barFinish (o : Orc) (tag : Nat) (h : Heap) (s l : Nat) (num den : Int) : Heap :=
  let kept := (o.perm tag (h.viewVals l)).filterMap (fun k => (h.lst l)[k]?)
  let h5 := overwriteRel (invalidateAbs h s) s kept                   -- bar.py:47 `overwrite_relative_messages`
  let m := h5.newMsg (o.tsMsg num den)                                -- bar.py:49 `Message(TIME_SIGNATURE, …)`
  let h6 := addRel o m.1 s m.2 (some 0)                               -- bar.py:49-52
  invalidateAbs h6 s                                                  -- bar.py:54 `self.sequence._abs_stale = True`

/-- the body of `Bar.__init__` after the attributes are set (bar.py:22-54): the ARGUMENT sequence is rewritten -/
def barBody (o : Orc) (tag : Nat) (h : Heap) (s : Nat) (num den : Int) : Heap :=
  let h1 := normalise o tag h s                                       -- bar.py:23
  let h2 := iterRel o h1 s                                            -- bar.py:27 `messages_rel()`
  let h3 := withRel o h2 s (padView (o.barPadMsg (mix tag 1)))        -- bar.py:34-35 `if duration < capacity: pad`
  let h4 := iterRel o h3 s                                            -- bar.py:38
  let r := getRel o h4 s                                              -- bar.py:48 `messages_rel()` …
  match r.2 with
  | none => r.1
  | some l => barFinish o (mix tag 2) r.1 s l num den

/-- `Bar.__init__(sequence, numerator, denominator, key)` (bar.py:14-54): the constructor keeps the
    ARGUMENT sequence object and rewrites it -/
def barInit (o : Orc) (tag : Nat) (h : Heap) (s : Nat) (num den key : Int) : Heap × Nat :=
  let b := h.newBar { seq := s, num := num, den := den, key := key }  -- bar.py:17-20
  (barBody o tag b.1 s num den, b.2)

/-- `Bar.copy()` (bar.py:57-66, second repair of D37): the channel for the copy's time signature is read off the bar's own
    messages through `self.sequence.rel` (bar.py:59) — a stale relative view of the SOURCE bar's sequence is regenerated,
    the only write to a cell that existed (if that read raises — both views stale — so does `copy()`: an end of the
    history, not modelled) —, then the sequence is copied and a new bar constructed on the copy (bar.py:63-65) -/
def barCopy (o : Orc) (tag : Nat) (h : Heap) (b : Nat) : Heap × Nat :=
  let c := h.bar b
  let h0 := readRel o h c.seq
  let s := seqCopy h0 c.seq
  barInit o tag s.1 s.2 c.num c.den c.key

/-- `Bar.transpose(transpose_by)` (bar.py:64-70) -/
def barTranspose (o : Orc) (tag : Nat) (shifted : Bool) (newKey : Int) (h : Heap) (b : Nat) : Heap :=
  let h1 := h.setBar b { h.bar b with key := newKey }
  transpose o tag shifted h1 (h1.bar b).seq

/-- `Bar.to_sequence(bars)` (bar.py:72-81): a new `Sequence` whose relative view holds the bars'
    message objects -/
def barsToSequence (o : Orc) (h : Heap) (bars : List Nat) : Heap × Nat :=
  let s := seqInit h none none
  (concatenate o s.1 s.2 (bars.map (fun b => (s.1.bar b).seq)), s.2)

/-! ## `Track`, `Composition` -/

/-- `Track.__init__(bars, name)` (track.py:13-24) -/
def trkInit (o : Orc) (tag : Nat) (h : Heap) (bars : List Nat) (name : Int) : Heap × Nat :=
  let t := h.newTrk { bars := bars, name := name, program := pyNone }
  let s := barsToSequence o t.1 bars                                  -- track.py:20
  let h2 := iterRel o s.1 s.2                                         -- track.py:21 `seq.messages_rel()`
  (h2.setTrk t.2 { h2.trk t.2 with program := o.program tag (optVals h2 (h2.seq s.2).rel) }, t.2)  -- track.py:22-25

/-- `[bar.copy() for bar in bars]` -/
def barCopies (o : Orc) (tag : Nat) (h : Heap) : List Nat → Heap × List Nat
  | [] => (h, [])
  | b :: bs =>
    let c := barCopy o tag h b
    let r := barCopies o (mix tag 3) c.1 bs
    (r.1, c.2 :: r.2)

/-- `Track.copy()` (track.py:26-28) -/
def trkCopy (o : Orc) (tag : Nat) (h : Heap) (t : Nat) : Heap × Nat :=
  let c := h.trk t
  let bs := barCopies o tag h c.bars
  trkInit o (mix tag 4) bs.1 bs.2 c.name

/-- `Track.to_sequence()` (track.py:30-31) -/
def trkToSequence (o : Orc) (h : Heap) (t : Nat) : Heap × Nat := barsToSequence o h (h.trk t).bars

def trkCopies (o : Orc) (tag : Nat) (h : Heap) : List Nat → Heap × List Nat
  | [] => (h, [])
  | t :: ts =>
    let c := trkCopy o tag h t
    let r := trkCopies o (mix tag 5) c.1 ts
    (r.1, c.2 :: r.2)

/-- `Composition.copy()` (composition.py:15-17) -/
def cmpCopy (o : Orc) (tag : Nat) (h : Heap) (c : Nat) : Heap × Nat :=
  let ts := trkCopies o tag h (h.cmp c)
  ts.1.newCmp ts.2

/-! ## `Sequence.sequences_split_bars` (sequence.py:449-540) -/

/-- `[sequence.copy() for sequence in sequences_input]` (sequence.py:467) -/
def seqCopies (h : Heap) : List Nat → Heap × List Nat
  | [] => (h, [])
  | s :: ss =>
    let c := seqCopy h s
    let r := seqCopies c.1 ss
    (r.1, c.2 :: r.2)

/-- `split_up = [Sequence(relative_sequence=seq) for seq in sequence.rel.split([length_bar])]`
    (sequence.py:518): the wrappers hold the pieces themselves, no copy here -/
def sbSplit (o : Orc) (tag : Nat) (h : Heap) (cur : Nat) : Heap × List Nat :=
  let r := getRel o h cur
  match r.2 with
  | none => (r.1, [])
  | some l =>
    let p := splitView (o.splitPlan tag) r.1 l
    wrapShared p.1 p.2

/-- sequence.py:531-538: optional `quantise_note_lengths(do_not_extend=True)`, then `Bar(sequence_to_add, …)` -/
def sbBar (o : Orc) (tag : Nat) (qnl : Bool) (h : Heap) (s0 : Nat) : Heap × Nat :=
  let h1 := if qnl then quantiseNoteLengths o (mix tag 1) h s0 else h
  let sg := o.barSig tag (optVals h (h.seq s0).rel)
  barInit o (mix tag 2) h1 s0 sg.1 sg.2.1 sg.2.2

/-- one track in one round of the `while` loop (sequence.py:517-538): `cur` is `sequences[i]`.
    Returns the new `sequences[i]`, the bar appended to `tracks_bars[i]`, and whether a remainder exists. -/
def sbTrack (o : Orc) (tag : Nat) (qnl : Bool) (h : Heap) (cur : Nat) : Heap × Nat × Nat × Bool :=
  let w := sbSplit o tag h cur
  match w.2 with
  | s0 :: s1 :: _ =>                                                  -- `len(split_up) > 1`
    let b := sbBar o tag qnl w.1 s0
    (b.1, s1, b.2, true)
  | [s0] =>
    let e := seqInit w.1 none none                                    -- `sequences[i] = Sequence()`
    let b := sbBar o tag qnl e.1 s0
    (b.1, e.2, b.2, false)
  | [] =>
    let s0 := seqInit w.1 none none                                   -- `split_up.append(Sequence())`
    let e := seqInit s0.1 none none                                   -- `sequences[i] = Sequence()`
    let b := sbBar o tag qnl e.1 s0.2
    (b.1, e.2, b.2, false)

/-- one round over all tracks: the state of a track is (`sequences[i]`, `tracks_bars[i]`) -/
def sbRound (o : Orc) (tag : Nat) (qnl : Bool) (h : Heap) : List (Nat × List Nat) → Heap × List (Nat × List Nat) × Bool
  | [] => (h, [], false)
  | (cur, bars) :: ts =>
    let r := sbTrack o tag qnl h cur
    let rs := sbRound o (mix tag 6) qnl r.1 ts
    (rs.1, (r.2.1, bars ++ [r.2.2.1]) :: rs.2.1, r.2.2.2 || rs.2.2)

/-- the `while not tracks_synchronised` loop, at most `fuel` rounds -/
def sbLoop (o : Orc) (tag : Nat) (qnl : Bool) : Nat → Heap → List (Nat × List Nat) → Heap × List (Nat × List Nat)
  | 0, h, st => (h, st)
  | n + 1, h, st =>
    let r := sbRound o (mix tag n) qnl h st
    if r.2.2 then sbLoop o tag qnl n r.1 r.2.1 else (r.1, r.2.1)

/-- `Sequence.sequences_split_bars(sequences_input, meta_track_index, quantise_note_lengths)`:
    the result is `tracks_bars` (bar identities per input sequence) -/
def splitBars (o : Orc) (tag : Nat) (qnl : Bool) (fuel : Nat) (h : Heap) (inputs : List Nat) (mti : Nat) :
    Heap × List (List Nat) :=
  let cs := seqCopies h inputs                                        -- sequence.py:467
  match cs.2[mti]? with
  | none => (cs.1, [])                                                -- IndexError
  | some m =>
    let h1 := readAbs o (readAbs o cs.1 m) m                          -- sequence.py:477-478
    let r := sbLoop o tag qnl fuel h1 (cs.2.map (fun c => (c, [])))
    (r.1, r.2.map (fun t => t.2))

/-- `Composition.from_sequences(sequences, meta_track_index)` (composition.py:52-66) -/
def trkInits (o : Orc) (tag : Nat) (h : Heap) : List (List Nat) → Heap × List Nat
  | [] => (h, [])
  | bs :: r =>
    let t := trkInit o tag h bs pyNone
    let ts := trkInits o (mix tag 7) t.1 r
    (ts.1, t.2 :: ts.2)

def cmpFromSequences (o : Orc) (tag : Nat) (fuel : Nat) (h : Heap) (inputs : List Nat) (mti : Nat) : Heap × Nat :=
  let bs := splitBars o tag true fuel h inputs mti
  let ts := trkInits o (mix tag 8) bs.1 bs.2
  ts.1.newCmp ts.2

/-! ## `scale` with a factor below 1 (relative_sequence.py:312-365) -/

/-- `[msg for cbar in bars for msg in cbar.sequence.rel._messages]` (relative_sequence.py:342,351) -/
def gatherRel (o : Orc) (h : Heap) : List Nat → Heap × List Nat
  | [] => (h, [])
  | b :: bs =>
    let r := getRel o h (h.bar b).seq
    let g := gatherRel o r.1 bs
    (g.1, (match r.2 with | some l => r.1.lst l | none => []) ++ g.2)

/-- `scale(factor, meta_sequence, quantise_afterwards)` for `factor < 1` (sequence.py:267-273 →
    relative_sequence.py:312-365): the receiver's relative view is wrapped in a temporary `Sequence`,
    split into bars (which copies), the bars' NEW messages are rewritten and become the content of the
    receiver's view, which is then normalised.  `mseq` is the optional `meta_sequence` argument. -/
def scaleDown (o : Orc) (tag : Nat) (qa : Bool) (fuel : Nat) (h : Heap) (s : Nat) (mseq : Option Nat) : Heap :=
  let r := getRel o h s                                               -- sequence.py:269 `self.rel.scale(…)`
  match r.2 with
  | none => r.1
  | some l =>
    let tmp := seqInit r.1 none (some l)                              -- relative_sequence.py:317
    let m := mseq.getD tmp.2                                          -- :319-320
    let bs := splitBars o (mix tag 1) false fuel tmp.1 [tmp.2, m] 1   -- :323-324
    let g := gatherRel o bs.1 (bs.2.headD [])                         -- :329-362
    let h2 := writeMsgs g.1 (g.2.zip (o.edit (mix tag 2) (g.1.vals g.2)))   -- :344,353-358
    let h3 := h2.setLst l g.2                                         -- :364
    let h4 := rebuildView (o.plan (mix tag 3)) h3 l                   -- :365 `normalise_relative()`
    let h5 := invalidateAbs h4 s                                      -- sequence.py:270
    if qa then quantiseAndNormalise o (mix tag 4) h5 s else h5        -- sequence.py:272-273

/-! ## histories: a concrete operation type over a root environment -/

/-- the public operations.  Numbers `i`, `j`, … are positions in the environment of roots (objects the
    caller holds); results are appended to the environment.  `tag` stands for the scalar arguments. -/
inductive HOp
  -- derivation routes
  | msgCopy (i : Nat)
  | seqCopy (i : Nat)
  | barCopy (i tag : Nat)
  | trkCopy (i tag : Nat)
  | cmpCopy (i tag : Nat)
  | split (i tag : Nat)
  | splitBars (is : List Nat) (mti : Nat) (qnl : Bool) (tag fuel : Nat)
  | cmpFromSequences (is : List Nat) (mti : Nat) (tag fuel : Nat)
  -- attribute access: `bar.sequence`, `track.bars`, `composition.tracks`; the message objects yielded by
  -- `messages_abs()` / `messages_rel()`
  | barSeq (i : Nat)
  | trkBars (i : Nat)
  | cmpTrks (i : Nat)
  | absMsgs (i : Nat)
  | relMsgs (i : Nat)
  -- constructors
  | newMsg (m : Msg)
  | newSeq
  | mkBar (i : Nat) (num den key : Int) (tag : Nat)
  | mkTrk (is : List Nat) (name : Int) (tag : Nat)
  | mkCmp (is : List Nat)
  -- reads
  | readAbs (i : Nat)
  | readRel (i : Nat)
  | refresh (i : Nat)
  | pairings (i tag : Nat)
  | equals (i j tag : Nat)
  -- in-place mutators
  | setChannel (i : Nat) (ch : Int)
  | transpose (i tag : Nat) (shifted : Bool)
  | scaleUp (i tag : Nat) (qa : Bool)
  | scaleDown (i : Nat) (mi : Option Nat) (tag fuel : Nat) (qa : Bool)
  | iterEditRel (i tag : Nat)
  | iterEditAbs (i tag : Nat)
  | editMsg (i : Nat) (m : Msg)
  | quantise (i tag : Nat)
  | quantiseNoteLengths (i tag : Nat)
  | cutoff (i tag : Nat)
  | quantiseAndNormalise (i tag : Nat)
  | barTranspose (i tag : Nat) (shifted : Bool) (newKey : Int)
  -- rebuilders
  | normalise (i tag : Nat)
  | pad (i tag : Nat)
  | addAbs (i j idx : Nat)
  | addRel (i j : Nat) (idx : Option Nat)
  | overwriteAbs (i : Nat) (js : List Nat) (tag : Nat)
  | overwriteRel (i : Nat) (js : List Nat)
  -- sharers
  | concatenate (i : Nat) (js : List Nat)
  | merge (i : Nat) (js : List Nat) (tag : Nat)
  | barsToSequence (js : List Nat)
  | trkToSequence (i : Nat)

/-- the identity of the root at position `i`, if it has kind `k` -/
def look (env : List Cell) (k : Kind) (i : Nat) : Option Nat :=
  match env[i]? with
  | some c => if c.1 = k then some c.2 else none
  | none => none

/-- all positions resolve to roots of kind `k` -/
def looks (env : List Cell) (k : Kind) : List Nat → Option (List Nat)
  | [] => some []
  | i :: is =>
    match look env k i, looks env k is with
    | some x, some xs => some (x :: xs)
    | _, _ => none

def cellsOf (k : Kind) (ids : List Nat) : List Cell := ids.map (fun i => (k, i))

/-- the roots at the given positions that have kind `k` -/
def pick (env : List Cell) (k : Kind) (is : List Nat) : List Cell :=
  is.filterMap (fun i => (look env k i).map (fun x => (k, x)))

/-- the objects an operation is applied to: the receiver and the object-valued arguments -/
def opRoots (env : List Cell) : HOp → List Cell
  | .msgCopy i => pick env .msg [i]
  | .seqCopy i => pick env .seq [i]
  | .barCopy i _ => pick env .bar [i]
  | .trkCopy i _ => pick env .trk [i]
  | .cmpCopy i _ => pick env .cmp [i]
  | .split i _ => pick env .seq [i]
  | .splitBars is _ _ _ _ => pick env .seq is
  | .cmpFromSequences is _ _ _ => pick env .seq is
  | .barSeq i => pick env .bar [i]
  | .trkBars i => pick env .trk [i]
  | .cmpTrks i => pick env .cmp [i]
  | .absMsgs i => pick env .seq [i]
  | .relMsgs i => pick env .seq [i]
  | .newMsg _ => []
  | .newSeq => []
  | .mkBar i _ _ _ _ => pick env .seq [i]
  | .mkTrk is _ _ => pick env .bar is
  | .mkCmp is => pick env .trk is
  | .readAbs i => pick env .seq [i]
  | .readRel i => pick env .seq [i]
  | .refresh i => pick env .seq [i]
  | .pairings i _ => pick env .seq [i]
  | .equals i j _ => pick env .seq [i] ++ pick env .seq [j]
  | .setChannel i _ => pick env .seq [i]
  | .transpose i _ _ => pick env .seq [i]
  | .scaleUp i _ _ => pick env .seq [i]
  | .scaleDown i _ _ _ _ => pick env .seq [i]      -- the optional `meta_sequence` is only copied
  | .iterEditRel i _ => pick env .seq [i]
  | .iterEditAbs i _ => pick env .seq [i]
  | .editMsg i _ => pick env .msg [i]
  | .quantise i _ => pick env .seq [i]
  | .quantiseNoteLengths i _ => pick env .seq [i]
  | .cutoff i _ => pick env .seq [i]
  | .quantiseAndNormalise i _ => pick env .seq [i]
  | .barTranspose i _ _ _ => pick env .bar [i]
  | .normalise i _ => pick env .seq [i]
  | .pad i _ => pick env .seq [i]
  | .addAbs i j _ => pick env .seq [i] ++ pick env .msg [j]
  | .addRel i j _ => pick env .seq [i] ++ pick env .msg [j]
  | .overwriteAbs i js _ => pick env .seq [i] ++ pick env .msg js
  | .overwriteRel i js => pick env .seq [i] ++ pick env .msg js
  | .concatenate i js => pick env .seq [i] ++ pick env .seq js
  | .merge i js _ => pick env .seq [i] ++ pick env .seq js
  | .barsToSequence js => pick env .bar js
  | .trkToSequence i => pick env .trk [i]

/-- one public operation applied to the caller's environment.  An ill-typed position is a no-op. -/
def step (o : Orc) (op : HOp) (st : Heap × List Cell) : Heap × List Cell :=
  let h := st.1
  let env := st.2
  match op with
  | .msgCopy i => match look env .msg i with
    | some m => let r := msgCopy h m; (r.1, env ++ [(.msg, r.2)])
    | none => st
  | .seqCopy i => match look env .seq i with
    | some s => let r := seqCopy h s; (r.1, env ++ [(.seq, r.2)])
    | none => st
  | .barCopy i tag => match look env .bar i with
    | some b => let r := barCopy o tag h b; (r.1, env ++ [(.bar, r.2)])
    | none => st
  | .trkCopy i tag => match look env .trk i with
    | some t => let r := trkCopy o tag h t; (r.1, env ++ [(.trk, r.2)])
    | none => st
  | .cmpCopy i tag => match look env .cmp i with
    | some c => let r := cmpCopy o tag h c; (r.1, env ++ [(.cmp, r.2)])
    | none => st
  | .split i tag => match look env .seq i with
    | some s => let r := split o tag h s; (r.1, env ++ cellsOf .seq r.2)
    | none => st
  | .splitBars is mti qnl tag fuel => match looks env .seq is with
    | some ss => let r := splitBars o tag qnl fuel h ss mti; (r.1, env ++ cellsOf .bar r.2.flatten)
    | none => st
  | .cmpFromSequences is mti tag fuel => match looks env .seq is with
    | some ss => let r := cmpFromSequences o tag fuel h ss mti; (r.1, env ++ [(.cmp, r.2)])
    | none => st
  | .barSeq i => match look env .bar i with
    | some b => (h, env ++ [(.seq, (h.bar b).seq)])
    | none => st
  | .trkBars i => match look env .trk i with
    | some t => (h, env ++ cellsOf .bar (h.trk t).bars)
    | none => st
  | .cmpTrks i => match look env .cmp i with
    | some c => (h, env ++ cellsOf .trk (h.cmp c))
    | none => st
  | .absMsgs i => match look env .seq i with                 -- `list(seq.messages_abs())` (sequence.py:177-190)
    | some s => let r := getAbs o h s
                match r.2 with
                | some l => (invalidateRel r.1 s, env ++ cellsOf .msg (r.1.lst l))
                | none => (r.1, env)
    | none => st
  | .relMsgs i => match look env .seq i with                 -- `list(seq.messages_rel())` (sequence.py:192-205)
    | some s => let r := getRel o h s
                match r.2 with
                | some l => (invalidateAbs r.1 s, env ++ cellsOf .msg (r.1.lst l))
                | none => (r.1, env)
    | none => st
  | .newMsg m => let r := h.newMsg m; (r.1, env ++ [(.msg, r.2)])
  | .newSeq => let r := seqInit h none none; (r.1, env ++ [(.seq, r.2)])
  | .mkBar i num den key tag => match look env .seq i with
    | some s => let r := barInit o tag h s num den key; (r.1, env ++ [(.bar, r.2)])
    | none => st
  | .mkTrk is name tag => match looks env .bar is with
    | some bs => let r := trkInit o tag h bs name; (r.1, env ++ [(.trk, r.2)])
    | none => st
  | .mkCmp is => match looks env .trk is with
    | some ts => let r := h.newCmp ts; (r.1, env ++ [(.cmp, r.2)])
    | none => st
  | .readAbs i => match look env .seq i with
    | some s => (readAbs o h s, env)
    | none => st
  | .readRel i => match look env .seq i with
    | some s => (readRel o h s, env)
    | none => st
  | .refresh i => match look env .seq i with
    | some s => (refresh o h s, env)
    | none => st
  | .pairings i tag => match look env .seq i with
    | some s => (pairings o tag h s, env)
    | none => st
  | .equals i j tag => match look env .seq i, look env .seq j with
    | some s, some t => (seqEquals o tag h s t, env)
    | _, _ => st
  | .setChannel i ch => match look env .seq i with
    | some s => (setChannel o h s ch, env)
    | none => st
  | .transpose i tag sh => match look env .seq i with
    | some s => (transpose o tag sh h s, env)
    | none => st
  | .scaleUp i tag qa => match look env .seq i with
    | some s => (scaleUp o tag qa h s, env)
    | none => st
  | .scaleDown i mi tag fuel qa => match look env .seq i with
    | some s => match mi with
      | none => (scaleDown o tag qa fuel h s none, env)
      | some j => match look env .seq j with
        | some m => (scaleDown o tag qa fuel h s (some m), env)
        | none => st
    | none => st
  | .iterEditRel i tag => match look env .seq i with
    | some s => (iterEditRel o tag h s, env)
    | none => st
  | .iterEditAbs i tag => match look env .seq i with
    | some s => (iterEditAbs o tag h s, env)
    | none => st
  | .editMsg i m => match look env .msg i with
    | some k => (h.setMsg k m, env)
    | none => st
  | .quantise i tag => match look env .seq i with
    | some s => (quantise o tag h s, env)
    | none => st
  | .quantiseNoteLengths i tag => match look env .seq i with
    | some s => (quantiseNoteLengths o tag h s, env)
    | none => st
  | .cutoff i tag => match look env .seq i with
    | some s => (cutoff o tag h s, env)
    | none => st
  | .quantiseAndNormalise i tag => match look env .seq i with
    | some s => (quantiseAndNormalise o tag h s, env)
    | none => st
  | .barTranspose i tag sh k => match look env .bar i with
    | some b => (barTranspose o tag sh k h b, env)
    | none => st
  | .normalise i tag => match look env .seq i with
    | some s => (normalise o tag h s, env)
    | none => st
  | .pad i tag => match look env .seq i with
    | some s => (pad o tag h s, env)
    | none => st
  | .addAbs i j idx => match look env .seq i, look env .msg j with
    | some s, some m => (addAbs o h s m idx, env)
    | _, _ => st
  | .addRel i j idx => match look env .seq i, look env .msg j with
    | some s, some m => (addRel o h s m idx, env)
    | _, _ => st
  | .overwriteAbs i js tag => match look env .seq i, looks env .msg js with
    | some s, some ms => (overwriteAbs o tag h s ms, env)
    | _, _ => st
  | .overwriteRel i js => match look env .seq i, looks env .msg js with
    | some s, some ms => (overwriteRel h s ms, env)
    | _, _ => st
  | .concatenate i js => match look env .seq i, looks env .seq js with
    | some s, some ss => (concatenate o h s ss, env)
    | _, _ => st
  | .merge i js tag => match look env .seq i, looks env .seq js with
    | some s, some ss => (merge o tag h s ss, env)
    | _, _ => st
  | .barsToSequence js => match looks env .bar js with
    | some bs => let r := barsToSequence o h bs; (r.1, env ++ [(.seq, r.2)])
    | none => st
  | .trkToSequence i => match look env .trk i with
    | some t => let r := trkToSequence o h t; (r.1, env ++ [(.seq, r.2)])
    | none => st

/-- a history of public operations -/
def run (o : Orc) : List HOp → Heap × List Cell → Heap × List Cell
  | [], st => st
  | op :: ops, st => run o ops (step o op st)

/-- the history in which `split` is the unrepaired one (negative control) -/
def stepU (o : Orc) (op : HOp) (st : Heap × List Cell) : Heap × List Cell :=
  match op with
  | .split i tag => match look st.2 .seq i with
    | some s => let r := splitUnrepaired o tag st.1 s; (r.1, st.2 ++ cellsOf .seq r.2)
    | none => st
  | op => step o op st

def runU (o : Orc) : List HOp → Heap × List Cell → Heap × List Cell
  | [], st => st
  | op :: ops, st => runU o ops (stepU o op st)

/-! ## value snapshots -/

/-- what can be read from a `Sequence` without calling anything: the message values of both view
    objects and the two flags -/
structure Snap where
  abs : List Msg
  rel : List Msg
  absStale : Bool
  relStale : Bool
  deriving DecidableEq, Repr

def snap (h : Heap) (s : Nat) : Snap :=
  { abs := optVals h (h.seq s).abs, rel := optVals h (h.seq s).rel,
    absStale := (h.seq s).absStale, relStale := (h.seq s).relStale }

end SCoda.HeapOps
