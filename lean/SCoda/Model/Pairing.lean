/-
  Model of `AbsoluteSequence.get_message_pairings` (absolute_sequence.py:383-448),
  `get_interleaved_message_pairings` (450-502), `equals` (92-160, after D4), `cutoff` (67-90),
  `merge` (162-176).
-/
import SCoda.Model.Conv
import SCoda.Model.Assoc
namespace SCoda

abbrev Pairing := List Msg

def modifyAt {α} (f : α → α) : Nat → List α → List α
  | _, [] => []
  | 0, x :: xs => f x :: xs
  | n + 1, x :: xs => x :: modifyAt f n xs

structure PairSt where
  pairs : Assoc Int (List Pairing) := []
  opens : Assoc (Int × Int) Nat := []

def PairSt.append (s : PairSt) (ch : Int) (p : Pairing) : PairSt :=
  { s with pairs := s.pairs.set ch ((s.pairs.get? ch).getD [] ++ [p]) }

def PairSt.appendAt (s : PairSt) (ch : Int) (i : Nat) (m : Msg) : PairSt :=
  { s with pairs := s.pairs.set ch (modifyAt (· ++ [m]) i ((s.pairs.get? ch).getD [])) }

def pairStep (types : List MType) (impute : Bool) (s : PairSt) (m : Msg) : PairSt :=
  if !types.contains m.ty then s else
  -- message_pairings.setdefault(msg.channel, [])
  let s := if s.pairs.contains m.ch then s else { s with pairs := s.pairs.set m.ch [] }
  match m.ty with
  | .noteOn =>
    let s := match s.opens.get? m.nkey with
      | some i => if impute then
          { (s.appendAt m.ch i (Msg.mkOff m.ch m.note m.time)) with opens := s.opens.erase m.nkey }
        else s
      | none => s
    let s := s.append m.ch [m]
    { s with opens := s.opens.set m.nkey (((s.pairs.get? m.ch).getD []).length - 1) }
  | .noteOff =>
    match s.opens.get? m.nkey with
    | none => s
    | some i => { (s.appendAt m.ch i m) with opens := s.opens.erase m.nkey }
  | _ => s.append m.ch [m]

def closeUnclosed (stdLen : Int) (impute : Bool) (p : Pairing) : Pairing :=
  match p with
  | [m] => if m.ty == .noteOn && impute then [m, Msg.mkOff m.ch m.note (m.time + stdLen)] else p
  | _ => p

/-- `get_message_pairings` on the (already sorted) absolute list -/
def pairingsSorted (types : List MType) (stdLen : Int) (impute : Bool) (a : List Msg) :
    Assoc Int (List Pairing) :=
  ((a.foldl (pairStep types impute) {}).pairs).map
    (fun kv => (kv.1, kv.2.map (closeUnclosed stdLen impute)))

/-- `get_message_pairings`: sorts first (and thereby reorders the absolute view) -/
def pairings (types : List MType) (stdLen : Int) (impute : Bool) (a : List Msg) :
    Assoc Int (List Pairing) :=
  pairingsSorted types stdLen impute (sortAbs a)

def notePairTypes : List MType := [.noteOn, .noteOff]

/-- head time of a channel's remaining pairings (`float('inf')` = `none`) -/
def headTime : List Pairing → Option Int
  | (m :: _) :: _ => some m.time
  | _ => Option.none

/-- index of the first channel whose next time is minimal -/
def argMinFirst : List (Option Int) → Nat → Option (Nat × Int) → Option (Nat × Int)
  | [], _, best => best
  | t :: ts, i, best =>
    let best := match t, best with
      | some v, Option.none => some (i, v)
      | some v, some (_, b) => if v < b then some (i, v) else best
      | Option.none, _ => best
    argMinFirst ts (i + 1) best

def interleaveGo : Nat → List (Int × List Pairing) → List (Int × Pairing) → List (Int × Pairing)
  | 0, _, acc => acc.reverse
  | fuel + 1, chans, acc =>
    match argMinFirst (chans.map (fun c => headTime c.2)) 0 Option.none with
    | Option.none => acc.reverse
    | some (i, _) =>
      match chans[i]? with
      | some (ch, p :: _) =>
        interleaveGo fuel (modifyAt (fun c => (c.1, c.2.drop 1)) i chans) ((ch, p) :: acc)
      | _ => acc.reverse

/-- `get_interleaved_message_pairings` -/
def interleaved (types : List MType) (stdLen : Int) (impute : Bool) (a : List Msg) :
    List (Int × Pairing) :=
  let cp := pairings types stdLen impute a
  interleaveGo ((cp.map (fun c => c.2.length)).sum) cp []

structure EqFlags where
  ignoreCh : Bool := false
  ignoreTs : Bool := false
  ignoreKs : Bool := false
  ignoreVel : Bool := false

def pairEq (f : EqFlags) (x y : Int × Pairing) : Bool :=
  if x.1 != y.1 && !f.ignoreCh then false else
  match x.2, y.2 with
  | sm :: srest, om :: orest =>
    if sm.ty != om.ty then false else
    if sm.time != om.time then false else
    match sm.ty with
    | .noteOn =>
      match srest, orest with
      | s1 :: _, o1 :: _ =>
        if sm.note != om.note || (s1.time - sm.time) != (o1.time - om.time) then false
        else if sm.vel != om.vel && !f.ignoreVel then false else true
      | _, _ => false   -- IndexError in Python; unreachable with imputation
    | .timeSignature => !(sm.num != om.num || sm.den != om.den)
    | .keySignature => !(sm.key != om.key)
    | _ => true
  | _, _ => false

def zipAll {α} (p : α → α → Bool) : List α → List α → Bool
  | [], [] => true
  | x :: xs, y :: ys => p x y && zipAll p xs ys
  | _, _ => false

/-- `AbsoluteSequence.equals` -/
def equalsAbs (ppqn : Int) (f : EqFlags) (a b : List Msg) : Bool :=
  let types : List MType := [.noteOn, .noteOff] ++ (if f.ignoreTs then [] else [.timeSignature])
                            ++ (if f.ignoreKs then [] else [.keySignature])
  let sp := interleaved types ppqn true a
  let op := interleaved types ppqn true b
  sp.length == op.length && zipAll (pairEq f) sp op

/-- `AbsoluteSequence.merge` -/
def mergeAbs (a : List Msg) (others : List (List Msg)) : List Msg := sortAbs (a ++ others.flatten)

/-- `cutoff(maximum_length, reduced_length)`: every note-off that is paired with a note-on
    more than `maxLen` earlier is moved to `on + redLen`; unclosed notes only get an imputed
    note-off that is not part of the sequence.  (Equivalent fold: the pairing's note-off is the
    next note-off of the same key after the most recent note-on.) -/
def cutoffGo (maxLen redLen : Int) : List Msg → Assoc (Int × Int) Int → List Msg
  | [], _ => []
  | m :: ms, opens =>
    match m.ty with
    | .noteOn => m :: cutoffGo maxLen redLen ms (opens.set m.nkey m.time)
    | .noteOff =>
      match opens.get? m.nkey with
      | some t =>
        (if m.time - t > maxLen then { m with time := t + redLen } else m)
          :: cutoffGo maxLen redLen ms (opens.erase m.nkey)
      | Option.none => m :: cutoffGo maxLen redLen ms opens
    | _ => m :: cutoffGo maxLen redLen ms opens

def cutoff (maxLen redLen : Int) (a : List Msg) : List Msg :=
  sortAbs (cutoffGo maxLen redLen (sortAbs a) [])

end SCoda
