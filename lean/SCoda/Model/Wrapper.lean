/-
  Concrete model of the `Sequence` wrapper (sequence.py:35-300): two views and two stale flags,
  every public operation as a function on that state.  The generic invariant proof is in
  `Props/C04.lean`; this file is the executable instance driven by the correspondence check.
-/
import SCoda.Model.Bar
import SCoda.Model.QuantiseS
namespace SCoda

/-- constants and library functions the wrapper's operations close over -/
structure Env where
  ppqn : Int := 24
  noteLo : Int := 21
  noteHi : Int := 108
  defSteps : List Int        -- get_default_step_sizes()
  defValues : List Int       -- get_default_note_values()
  tk : Int → Int → Int       -- Key.transpose_key on key indices (pyNone ↦ pyNone)

structure Seq where
  abs : List Msg := []
  rel : List Msg := []
  absStale : Bool := false
  relStale : Bool := true
  deriving DecidableEq, Repr

namespace Seq

def new : Seq := {}
def ofAbs (a : List Msg) : Seq := { abs := a }
def ofRel (r : List Msg) : Seq := { rel := r, absStale := true, relStale := false }

/-- the `abs` property: regenerate if stale -/
def readAbs (s : Seq) : Except Err (Seq × List Msg) :=
  if s.absStale then
    if s.relStale then .error .sequenceStale
    else let a := toAbs s.rel; .ok ({ s with abs := a, absStale := false }, a)
  else .ok (s, s.abs)

/-- the `rel` property -/
def readRel (s : Seq) : Except Err (Seq × List Msg) :=
  if s.relStale then
    if s.absStale then .error .sequenceStale
    else let r := toRel s.abs; .ok ({ s with rel := r, relStale := false }, r)
  else .ok (s, s.rel)

def refresh (s : Seq) : Except Err Seq := do
  if s.absStale && s.relStale then throw .sequenceStale
  let (s, _) ← s.readAbs
  let (s, _) ← s.readRel
  .ok s

/-- `copy()`: copies exactly the fresh views (both stale gives a new empty sequence) -/
def copy (s : Seq) : Seq :=
  match s.absStale, s.relStale with
  | false, false => { abs := s.abs, rel := s.rel, absStale := false, relStale := false }
  | false, true => ofAbs s.abs
  | true, false => ofRel s.rel
  | true, true => new

/-- apply a function to the absolute view (after regenerating it), invalidate the relative -/
def onAbs (s : Seq) (f : List Msg → Except Err (List Msg)) : Except Err Seq := do
  let (s, a) ← s.readAbs
  let a' ← f a
  .ok { s with abs := a', relStale := true }

def onRel (s : Seq) (f : List Msg → Except Err (List Msg)) : Except Err Seq := do
  let (s, r) ← s.readRel
  let r' ← f r
  .ok { s with rel := r', absStale := true }

def addAbsMsg (s : Seq) (m : Msg) : Except Err Seq := s.onAbs (fun a => .ok (insort a m))

def insertAt {α} (x : α) : Nat → List α → List α
  | 0, l => x :: l
  | _ + 1, [] => [x]
  | n + 1, y :: ys => y :: insertAt x n ys

def addRelMsg (s : Seq) (m : Msg) (idx : Option Nat) : Except Err Seq :=
  s.onRel (fun r => .ok (match idx with | some i => insertAt m i r | Option.none => r ++ [m]))

def normaliseSeq (s : Seq) : Except Err Seq := s.onRel (fun r => .ok (normalise r))
def padSeq (s : Seq) (n : Int) : Except Err Seq := s.onRel (fun r => .ok (pad n r))
def setChannelSeq (s : Seq) (c : Int) : Except Err Seq := s.onRel (fun r => .ok (setChannel c r))
def cutoffSeq (s : Seq) (m r : Int) : Except Err Seq := s.onAbs (fun a => .ok (cutoff m r a))
/-- `quantise(step_sizes)`: `AbsoluteSequence.quantise` of the source repaired for D41 — sort, then the walk (`quantiseS`) -/
def quantiseSeq (e : Env) (s : Seq) (steps : Option (List Int)) : Except Err Seq :=
  s.onAbs (quantiseS (steps.getD e.defSteps))
def qnlSeq (e : Env) (s : Seq) (values : Option (List Int)) (stdLen : Int) (dne : Bool) : Except Err Seq :=
  s.onAbs (quantiseNoteLengths (values.getD e.defValues) stdLen dne)

def quantiseAndNormalise (e : Env) (s : Seq) : Except Err Seq := do
  let s ← quantiseSeq e s Option.none
  let s ← qnlSeq e s Option.none e.ppqn false
  normaliseSeq s

/-- `concatenate(sequences)`: the arguments are given by their relative views -/
def concatSeq (s : Seq) (others : List (List Msg)) : Except Err Seq :=
  s.onRel (fun r => .ok (concatenate r others))

/-- `merge(sequences)`: the arguments are given by their absolute views -/
def mergeSeq (s : Seq) (others : List (List Msg)) : Except Err Seq := do
  let s ← s.onAbs (fun a => .ok (mergeAbs a others))
  normaliseSeq s

/-- `overwrite_absolute_messages(messages)` (after the repair of D12) -/
def overwriteAbs (s : Seq) (ms : List Msg) : Seq :=
  { s with abs := ms.foldl insort [], absStale := false, relStale := true }

def overwriteRel (s : Seq) (ms : List Msg) : Seq :=
  { s with rel := ms, relStale := false, absStale := true }

/-- iterate `messages_abs()` to the end, editing every yielded message with `f` -/
def editAbs (s : Seq) (f : Msg → Msg) : Except Err Seq := s.onAbs (fun a => .ok (a.map f))
def editRel (s : Seq) (f : Msg → Msg) : Except Err Seq := s.onRel (fun r => .ok (r.map f))

def transposeSeq (e : Env) (s : Seq) (by_ : Int) : Except Err (Seq × Bool) := do
  let (s, r) ← s.readRel
  let (r', shifted) := transposeRel e.noteLo e.noteHi (fun k => e.tk k by_) by_ r
  let s := { s with rel := r', absStale := true }
  if shifted then
    let s ← normaliseSeq s
    let s ← qnlSeq e s Option.none e.ppqn false
    .ok (s, true)
  else .ok (s, false)

/-- `scale(factor)` for an integer factor ≥ 1 -/
def scaleSeq (e : Env) (s : Seq) (k : Int) (quantiseAfterwards : Bool) : Except Err Seq := do
  let s ← s.onRel (fun r => .ok (scaleRel k r))
  if quantiseAfterwards then quantiseAndNormalise e s else .ok s

/-- `split(capacities)`: the pieces are new sequences holding only a relative view -/
def splitSeq (s : Seq) (caps : List Int) : Except Err (Seq × List Seq) := do
  let (s, r) ← s.readRel
  let ps ← split r caps
  .ok (s, ps.map ofRel)

def equalsSeq (e : Env) (f : EqFlags) (s t : Seq) : Except Err (Seq × Seq × Bool) := do
  let (s, a) ← s.readAbs
  let (t, b) ← t.readAbs
  -- get_message_pairings sorts both absolute views in place
  .ok ({ s with abs := sortAbs a }, { t with abs := sortAbs b }, equalsAbs e.ppqn f a b)

end Seq
end SCoda
