/-
  Support library of the identity translation, part 2 (`tools/py2lean_heap2.py` → `Gen/HeapFns2.lean`, tie `Props/HeapTie2.lean`):
  Python dicts as insertion-ordered association lists, with Python's semantics for the operations `RelativeSequence.split` uses.
  Core Lean only.
-/
import SCoda.Model.HeapLib
namespace SCoda.HeapLib2
open SCoda SCoda.HeapOps SCoda.HeapLib

/-- `d[k] = v`: an existing key keeps its position and gets the new value; a new key is appended -/
def dictSet {κ ν : Type} [DecidableEq κ] : List (κ × ν) → κ → ν → List (κ × ν)
  | [], k, v => [(k, v)]
  | (k', v') :: d, k, v => if k' = k then (k, v) :: d else (k', v') :: dictSet d k v

/-- `d.pop(k, None)` (result dropped): the key is removed if present -/
def dictDel {κ ν : Type} [DecidableEq κ] : List (κ × ν) → κ → List (κ × ν)
  | [], _ => []
  | (k', v') :: d, k => if k' = k then d else (k', v') :: dictDel d k

end SCoda.HeapLib2
