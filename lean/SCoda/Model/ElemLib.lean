/-
  Value representation of the element layer (`Bar`, `Track`, `Composition`) for the translation in
  `Gen/ElemFns.lean` (regenerated from scoda/elements/*.py on every run by tools/py2lean_elem.py), and
  the few links that translation uses.

  A `Bar` object is `GBar`: its `Sequence` as a wrapper state (`Seq`, both views and both stale flags),
  numerator, denominator and key index (`pyNone` for `None`).  (The constructor's `default_channel` is not an attribute
  of a bar: since the second repair of D37 `Bar.copy` reads the channel off the bar's own leading time-signature
  message.)  The hand model `SCoda.Bar` (Model/Bar.lean) keeps only the relative view; `GBar.toBar` forgets the rest.
-/
import SCoda.Model.ViewLib
import SCoda.Model.PyNum
namespace SCoda

structure GBar where
  sequence : Seq := {}
  num : Int := pyNone
  den : Int := pyNone
  key : Int := pyNone
  deriving DecidableEq, Repr, Inhabited

structure GTrack where
  bars : List GBar := []
  program : Int := pyNone
  deriving DecidableEq, Repr, Inhabited

structure GComposition where
  tracks : List GTrack := []
  deriving DecidableEq, Repr, Inhabited

/-- what the hand model keeps of a bar: the relative view of its sequence and the three scalars -/
def GBar.toBar (g : GBar) : Bar := { seq := g.sequence.rel, num := g.num, den := g.den, key := g.key }

/-- the state `Bar.__init__` leaves the sequence of a bar in: relative view fresh, absolute view stale -/
def GBar.ofBar (b : Bar) : GBar :=
  { sequence := { abs := [], rel := b.seq, absStale := true, relStale := false }, num := b.num, den := b.den, key := b.key }

/-- the `int` in Python's `int(<numeric expression>)`, as an `Int` -/
def pyIntOf (x : PyNum) : Int :=
  match PyNum.pyint x with
  | .int i => i
  | .float q => q.floor   -- unreachable: `pyint` always returns an int

/-- `l[i]` for a natural index (`IndexError` when out of range) -/
def pyGetNat {α} (l : List α) (i : Nat) : Except Err α :=
  match l[i]? with
  | some x => .ok x
  | Option.none => .error .indexError

/-- `l[i]` for an integer index (negative indices count from the end) -/
def pyGetInt {α} (l : List α) (i : Int) : Except Err α :=
  if 0 ≤ i then pyGetNat l i.toNat
  else if (-i).toNat ≤ l.length then pyGetNat l (l.length - (-i).toNat) else .error .indexError

namespace View

/-- link: `Sequence.sequences_split_bars(sequences, meta_track_index, quantise_note_lengths)` in terms of the
    model `splitBars` (Model/Bar.lean), which takes every input sequence by its relative view; a sequence
    with both views stale cannot be copied (`copy()` then yields an empty sequence — outside this link). -/
def seq_split_bars (e : Env) (seqs : List Seq) (metaIdx : Nat) (requant : Bool) : Except Err (List (List GBar)) := do
  let rels ← seqs.mapM (fun s => (·.2) <$> s.readRel)
  let tb ← splitBars e.ppqn e.defValues rels metaIdx requant
  .ok (tb.map (fun bs => bs.map GBar.ofBar))

end View
end SCoda
