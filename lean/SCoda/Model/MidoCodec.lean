/-
  The save side, from the translated `MidiTrack.to_mido_track` to the objects handed to `mido` (audit round 3, item M5).

  The translation of `to_mido_track` (Gen/ViewFns.lean `toMidoTrack`, tools/py2lean.py) renders each mido constructor call
  as a `Msg` literal (LINK `mido.Message / MetaMessage ↦ a Msg literal`, MIDO_KINDS / MIDO_KW of tools/py2lean.py):
      mido.Message("note_on", note=…, velocity=…, time=…)          ↦ { ty := .noteOn,  ch := 0,      time, note, vel }
      mido.Message("note_off", note=…, velocity=0, time=…)         ↦ { ty := .noteOff, ch := 0,      time, note, vel := 0 }
      mido.MetaMessage("time_signature", numerator=…, denominator=…, time=…) ↦ { ty := .timeSignature, ch := pyNone, time, num, den }
      mido.MetaMessage("key_signature", key=msg.key.value, time=…) ↦ { ty := .keySignature, ch := pyNone, time, key := index }
      mido.Message("control_change", channel=0, control=…, value=…, time=…)  ↦ { ty := .controlChange, ch := 0, time, ctl, vel := value }
  `encodeMsg` reads such a literal back as the mido message object it stands for, in the vocabulary of the *load* side
  (`MidoMsg`, Model/MidiParse.lean: the attributes `MidiMessage.parse_mido_message` reads): `ch := 0` is the default channel
  of a `mido.Message` (midi_track.py:39-43 passes none, :56 passes 0), `ch := pyNone` is "a `MetaMessage` has no attribute
  `channel`", the key index is the key *name* `Key.value` (`keyName`, the table `Gen.keyValues` regenerated from
  enumerations/key.py), a control change's `value` travels in `vel`.  Attributes the constructor was not given keep the
  defaults of `MidoMsg` (the parser does not read them for that type).

  `midiFileSave` is `MidiFile.save` (scoda/midi/midi_file.py:151-158) up to `mido_midi_file.save(path)`: the object handed to
  mido.  NOT yet tied to the code by the correspondence check: needs a driver op (see the report of pr6):
      `encodeMido <relative messages>`  answering, per message of the real `to_midi_track().to_mido_track()`, the tuple
      `(type, time, channel|N, note, velocity, numerator, denominator, key name, control, value)` read with `getattr`.
  Core Lean only.
-/
import SCoda.Model.StaticLib
import SCoda.Gen.ViewFns
namespace SCoda

/-- the mido message object a literal of the translated `to_mido_track` stands for.  `KeyError` stands for "the key index
    names none of the fifteen members of `Key`" — no Python counterpart (`msg.key` is a `Key` member or `None`, and `None`
    raises AttributeError already inside the translated `to_mido_track`, `keyValue`). -/
def encodeMsg (m : MidiEv) : Except Err MidoMsg :=
  -- `mido.Message(…)` has a channel (default 0), `mido.MetaMessage(…)` has none
  let ch : Option Int := if m.ch = pyNone then none else some m.ch
  match m.ty with
  | .noteOn => .ok { type := .noteOn, time := m.time, channel := ch, note := m.note, velocity := m.vel }          -- midi_track.py:38-41
  | .noteOff => .ok { type := .noteOff, time := m.time, channel := ch, note := m.note, velocity := m.vel }        -- :43-44
  | .timeSignature => .ok { type := .timeSignature, time := m.time, channel := ch, numerator := m.num, denominator := m.den }  -- :48-50
  | .keySignature =>                                                                                               -- :52-53  key=msg.key.value
    match keyName m.key with
    | some nm => .ok { type := .keySignature, time := m.time, channel := ch, key := nm }
    | none => .error .keyError
  | .controlChange => .ok { type := .controlChange, time := m.time, channel := ch, control := m.ctl, value := m.vel }  -- :55-58
  | .programChange => .ok { type := .programChange, time := m.time, channel := ch, program := m.prog }            -- (not written by to_mido_track)
  | _ => .ok { type := .other, time := m.time, channel := ch }

/-- the `mido.MidiTrack` the translated `to_mido_track` hands over: message by message, the first failure wins -/
def encodeTrack : List MidiEv → Except Err (List MidoMsg)
  | [] => .ok []
  | m :: ms =>
    match encodeMsg m with
    | .error e => .error e
    | .ok mm =>
      match encodeTrack ms with
      | .error e' => .error e'
      | .ok mms => .ok (mm :: mms)

/-- `track.to_mido_track()` of one `MidiTrack` (its list of `MidiMessage`s): the translated function, then the objects its
    literals stand for.  The translated function raises only AttributeError (`msg.key.value` on `None`). -/
def toMidoObjects (t : List MidiEv) : Except Err (List MidoMsg) :=
  match Gen.View.toMidoTrack t with
  | .ok l => encodeTrack l
  | .error _ => .error Err.attributeError

/-- `MidiFile.save(path)` (midi_file.py:151-158) up to the write: what is handed to `mido_midi_file.save(path)` -/
def midiFileSave (ppqn : Int) (f : GMidiFile) : Except Err MidoFile :=
  -- :152-153  mido_midi_file = mido.MidiFile(); mido_midi_file.ticks_per_beat = PPQN
  -- :155-156  for track in self.tracks: mido_midi_file.tracks.append(track.to_mido_track())
  match f.tracks.mapM toMidoObjects with
  | .ok ts => .ok { ticksPerBeat := ppqn, tracks := ts }
  | .error e => .error e

/-- the `MetaMessage('end_of_track', time=t)` mido puts at the end of every track it writes -/
def MidoMsg.endOfTrack (t : Int) : MidoMsg := { type := .other, time := t }

/-- two lists of the same length related element by element -/
def All2 {α β : Type} (R : α → β → Prop) : List α → List β → Prop
  | [], [] => True
  | a :: as, b :: bs => R a b ∧ All2 R as bs
  | _, _ => False

/-- **what is assumed about `mido`** (its file codec is not modelled): `mido.MidiFile(path)`, read after
    `mido_midi_file.save(path)` of the object `written`, has the same `ticks_per_beat` and, track by track, the same
    messages — same `type` and same attributes as far as `parse_mido_message` reads them (`time`, `channel` or its absence,
    `note`, `velocity`, `numerator`, `denominator`, `key`, `control`, `value`) — followed by one `end_of_track` meta message
    (whatever its delta time; mido writes 0).  Replayed through real files in the domain where mido accepts the messages
    (data bytes 0..127, numerator 0..255, denominator a power of two, the fifteen key names); outside it mido raises at
    construction or on `save` and nothing is written. -/
def ReadBack (written read : MidoFile) : Prop :=
  read.ticksPerBeat = written.ticksPerBeat ∧
  All2 (fun t' t => ∃ d, t' = t ++ [MidoMsg.endOfTrack d]) read.tracks written.tracks

/-- the file mido hands back when the assumption is taken with delta 0 for every `end_of_track` (what mido 1.3 writes) -/
def readBack0 (written : MidoFile) : MidoFile :=
  { written with tracks := written.tracks.map (· ++ [MidoMsg.endOfTrack 0]) }

end SCoda
