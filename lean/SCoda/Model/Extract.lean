/-
  The glue in front of the tokeniser core (`tokenise`, notelike_tokenisation.py:143-151):
  every track is put on the channel of its index, all tracks are merged into one sequence
  (`Sequence.merge`: absolute merge, then `normalise`), and the time-interleaved pairings of
  note, time-signature and INTERNAL messages are read off.  Tracks are given by their relative views.
-/
import SCoda.Model.Normalise
import SCoda.Model.Pairing
namespace SCoda

def extractTypes : List MType := [.noteOn, .noteOff, .timeSignature, .internal]

def extract (ppqn : Int) (tracks : List (List Msg)) : List (Int × Pairing) :=
  let abss := tracks.zipIdx.map (fun (r, i) => toAbs (setChannel (i : Int) r))
  let merged := mergeAbs [] abss
  let rel := normalise (toRel merged)
  interleaved extractTypes ppqn true (toAbs rel)

end SCoda
