/-
  Model of the two orderings the code relies on:
  * `AbsoluteSequence.sort`  (`list.sort(key=(time, channel, message_type, note))`, stable)
  * `util.binary_insort`     (insert after the last element whose time is ≤ the new time)

  `isort` is a structurally recursive *stable* insertion sort; every stable sort computes the
  same list, so this is extensionally Python's `list.sort` with that key (DESIGN §2.2).
-/
import SCoda.Model.Msg
namespace SCoda

/-- lexicographic `≤` on the sort key `(time, channel, message_type, note)` -/
def keyLe (a b : Msg) : Bool :=
  if a.time < b.time then true else if b.time < a.time then false else
  if a.ch < b.ch then true else if b.ch < a.ch then false else
  if a.ty.rank < b.ty.rank then true else if b.ty.rank < a.ty.rank then false else
  decide (a.note ≤ b.note)

/-- insert `x` before the first `y` with `le x y` (so behind everything strictly smaller) -/
def ins {α} (le : α → α → Bool) (x : α) : List α → List α
  | [] => [x]
  | y :: ys => if le x y then x :: y :: ys else y :: ins le x ys

/-- stable insertion sort: `x` precedes the elements of `xs` it ties with -/
def isort {α} (le : α → α → Bool) : List α → List α
  | [] => []
  | x :: xs => ins le x (isort le xs)

/-- `AbsoluteSequence.sort` / `normalise_absolute` -/
def sortAbs (l : List Msg) : List Msg := isort keyLe l

/-- `binary_insort(collection, message)`: position = number of leading elements `y` with
    `¬ message.time < y.time`; on a time-sorted list that is "after the last element whose
    time is ≤".  The bisection is modelled by its specification on sorted input and by the
    same bisection (with fuel) in general. -/
def insortGo (t : Int) (arr : Array Msg) : Nat → Nat → Nat → Nat
  | 0, lo, _ => lo
  | fuel + 1, lo, hi =>
    if lo < hi then
      let mid := (lo + hi) / 2
      if t < (arr.getD mid default).time then insortGo t arr fuel lo mid
      else insortGo t arr fuel (mid + 1) hi
    else lo

def insort (l : List Msg) (m : Msg) : List Msg :=
  let arr := l.toArray
  let pos := insortGo m.time arr (l.length + 1) 0 l.length
  l.take pos ++ m :: l.drop pos

/-- specification of `insort` on time-sorted input -/
def insortSpec (l : List Msg) (m : Msg) : List Msg :=
  l.takeWhile (fun y => decide (y.time ≤ m.time)) ++ m :: l.dropWhile (fun y => decide (y.time ≤ m.time))

end SCoda
