/-
  Support library of the GENERATED translation of `MultiTrackLargeVocabularyNotelikeTokeniser`, third part
  (Gen/TokFns.lean, written by tools/py2lean_tok.py): the link for `get_velocity_bins(velocity_bins=n)`
  (scoda/tokenisation/notelike_tokenisation.py:64, `self.velocity_bins = get_velocity_bins(velocity_bins=velocity_bins)`).

  Audit round 4, item C2: the former link `TokLib.linkVelocityBins` is the 64-row table `Gen.velocityBinsTable`, so the translated
  `__init__` answered `outOfSubset` for `velocity_bins` outside 1..64 although Python builds such tokenisers.  The link is now the
  TRANSLATED `get_velocity_bins` itself (`Gen.Util.getVelocityBins`, regenerated from scoda/misc/util.py:25-34 on every run by
  tools/py2lean_util.py and tied to the hand transcription by `UtilTie.getVelocityBins_int`), called the way `__init__` calls it
  (`velocity_max` left at its default `None`, `velocity_bins=n`), for EVERY int `n`:
      n = 0   ZeroDivisionError (util.py:31 `round(velocity_max / velocity_bins)`), as in the source;
      n < 0   `range(0, n)` is empty: `[]`;
      n > 0   `n` bins.
  Its values are `int(…)` results, read back as `Int` by `pyNumInt?` (a float among them would be `outOfSubset`; there is none:
  `TokLib3L.linkVelocityBinsFn_eq`).  Equal to the table on 1..64 (`TokLib3L.linkVelocityBinsFn_table`).
  Hand-written, core Lean only; `#eval` / `decide +kernel` compute it.
-/
import SCoda.Model.TokLib
import SCoda.Gen.UtilFns
namespace SCoda.TokLib

/-- an int-typed Python number as an `Int` -/
def pyNumInt? : PyNum → Option Int
  | .int i => some i
  | .float _ => none

/-- exception classes of the translated util module as exception classes of the tokeniser translation -/
def ofUErr : Util.UErr → PyErr
  | .zeroDivisionError => .zeroDivisionError
  | .valueError => .valueError
  | .indexError => .indexError
  | .fuel => .fuel
  | _ => .calleeRaised

/-- `get_velocity_bins(velocity_bins=n)`: the translated source function, every `n` -/
def linkVelocityBinsFn (n : Int) : Except PyErr (List Int) :=
  match Gen.Util.getVelocityBins none (some (.int n)) with
  | .error e => .error (ofUErr e)
  | .ok l =>
    match l.mapM pyNumInt? with
    | some bins => .ok bins
    | none => .error .outOfSubset

end SCoda.TokLib
