/-
  Model of `Bar.transpose` (/repo/scoda/elements/bar.py:63-69) on the `Bar` structure of
  `Model/Bar.lean`.  Core Lean only.

      def transpose(self, transpose_by: int) -> bool:                              # bar.py:63
          if self.key_signature is not None:                                       # bar.py:66
              self.key_signature = Key.transpose_key(self.key_signature, transpose_by)   # :67
          return self.sequence.transpose(transpose_by)                             # bar.py:69

  `self.sequence` is a `Sequence` wrapper.  `Bar.__init__` leaves it with a fresh relative view and
  a stale absolute view (bar.py:45-53: `overwrite_relative_messages`, `add_relative_message`, then
  `self.sequence._abs_stale = True`), which is the wrapper state `Seq.ofRel b.seq`; a `Bar` of the
  model *is* that relative view (`Bar.seq`).  `Sequence.transpose` (sequence.py:273-283) is
  `Seq.transposeSeq` of `Model/Wrapper.lean`; the new `Bar.seq` is the relative view read back
  from the wrapper afterwards (`.rel`, which regenerates it if the octave-wrap branch left only the
  absolute view fresh).
-/
import SCoda.Model.Wrapper
import SCoda.Gen.Settings
import SCoda.Gen.TheoryFns
namespace SCoda

/-- `Key.transpose_key(Key[k], by)` on key indices, built from the *generated* translation
    `Gen.transposeKey`: `pyNone` ↦ `pyNone`, a Python `None` result (sentinel -1000000) ↦ `pyNone`,
    a raised exception ↦ -2.  Textually the same function as `tkFn` in `Driver.lean:96`. -/
def genTk (k by_ : Int) : Int :=
  if k == pyNone then pyNone else
  match Gen.transposeKey k by_ with
  | some v => if v == -1000000 then pyNone else v
  | none => -2     -- the Python function raised

/-- the environment of the generated settings; textually the same record as `env` in `Driver.lean:102` -/
def genEnv : Env :=
  { ppqn := Gen.ppqn, noteLo := Gen.noteLowerBound, noteHi := Gen.noteUpperBound,
    defSteps := Gen.defaultStepSizes, defValues := Gen.defaultNoteValues, tk := genTk }

/-- `CircleOfFifths.get_position` as the `cof` argument of `getInfo`, built from the generated
    translation `Gen.getPosition` (-99 if the Python function raised, which `GapsL.getPosition_spec`
    shows never happens).  Textually the same function as `cofFn` in `Driver.lean:106`. -/
def genCof (p : Int) : Int := (Gen.getPosition p).getD (-99)

/-- `Bar.transpose(transpose_by)`: the new bar and the returned flag.  `e.tk k by` is
    `Key.transpose_key` on key indices; the explicit `is not None` test of bar.py:66 is kept. -/
def Bar.transpose (e : Env) (b : Bar) (by_ : Int) : Except Err (Bar × Bool) := do
  -- bar.py:66-67
  let key := if b.key == pyNone then pyNone else e.tk b.key by_
  -- bar.py:69
  let (s, shifted) ← Seq.transposeSeq e (Seq.ofRel b.seq) by_
  let (_, r) ← s.readRel
  .ok ({ b with seq := r, key := key }, shifted)

end SCoda
