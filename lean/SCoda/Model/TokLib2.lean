/-
  Support library of the GENERATED translation of `MultiTrackLargeVocabularyNotelikeTokeniser`, second part
  (Gen/TokFns.lean, written by tools/py2lean_tok.py): the built-ins `set(l)` and `sorted(s)` (no key) on ints, used by
  `__init__` since the repair of finding D31 (scoda/tokenisation/notelike_tokenisation.py:58 and :62,
  `self.step_sizes = sorted(set(self.step_sizes))`, the same for `note_values`).
  Hand-written, core Lean only, structural, so that `#eval` / `decide` compute.

       set(l) on ints                      ↦ pySetInt                (the distinct elements)
       sorted(s) on ints, no key           ↦ pySortedInt             (ascending; = `pySortInt`, the stable insertion sort)

  A Python `set` has no specified iteration order.  The translator therefore gives `set(l)` the type `Set Int`, which has NO
  Lean type for a local variable and is accepted by exactly one consumer, `sorted(…)`, whose result does not depend on the order
  in which the elements are handed to it (`pySortedInt_perm` below: two lists with the same elements, each once, sort to the same
  list).  The REPRESENTATION of the set is a duplicate-free list (`pySetInt_nodup`) with the elements of `l` (`mem_pySetInt`);
  which of several equal ints is kept is unobservable (ints are values).
-/
import SCoda.Model.TokLib
namespace SCoda.TokLib

/-- `set(l)` for a list of ints: the distinct elements of `l` (each once) -/
def pySetInt : List Int → List Int
  | [] => []
  | x :: xs => if (pySetInt xs).contains x then pySetInt xs else x :: pySetInt xs

/-- `sorted(s)` (no key, no `reverse`) on ints: ascending; equal elements keep their order (unobservable on ints) -/
def pySortedInt (l : List Int) : List Int := pySortInt l

end SCoda.TokLib
