/-
  Ownership machine for C16 (DESIGN §4 C16).  The value models have no aliasing, so independence of
  copies and derived sequences is stated over a small heap model: a store of messages addressed by
  identities (CPython object identity), objects that hold lists of identities, and the *identity
  behaviour* of operations: which identities an operation may write, and which identities the
  resulting object may hold.
-/
import SCoda.Model.Msg
namespace SCoda

structure Heap where
  store : Nat → Msg
  next : Nat                  -- every allocated identity is < next

/-- a `Sequence` (or a bar/track/composition: the union of its sequences) as the identities of the
    messages reachable from it, through either view -/
structure Obj where
  abs : List Nat
  rel : List Nat
  deriving DecidableEq, Repr

def Obj.ids (o : Obj) : List Nat := o.abs ++ o.rel

def Obj.Allocated (h : Heap) (o : Obj) : Prop := ∀ i ∈ o.ids, i < h.next

/-- allocate one fresh message -/
def Heap.alloc (h : Heap) (m : Msg) : Heap × Nat :=
  ({ store := fun i => if i = h.next then m else h.store i, next := h.next + 1 }, h.next)

/-- allocate copies of the messages behind `ids` (`[msg.copy() for msg in …]`) -/
def Heap.copyAll (h : Heap) : List Nat → Heap × List Nat
  | [] => (h, [])
  | i :: is =>
    let (h1, j) := h.alloc (h.store i)
    let (h2, js) := h1.copyAll is
    (h2, j :: js)

/-- `Sequence.copy()` / `AbstractSequence.copy()`: message-wise deep copy of both views -/
def Obj.copy (h : Heap) (o : Obj) : Heap × Obj :=
  let (h1, a) := h.copyAll o.abs
  let (h2, r) := h1.copyAll o.rel
  (h2, { abs := a, rel := r })

/-- in-place edit of the messages of the relative view (`set_channel`, `transpose`, `scale`, edits
    through `messages_rel()`): the identities stay, the store changes at exactly those identities -/
def Obj.editRel (h : Heap) (o : Obj) (f : Msg → Msg) : Heap × Obj :=
  ({ h with store := fun i => if i ∈ o.rel then f (h.store i) else h.store i }, o)

def Obj.editAbs (h : Heap) (o : Obj) (f : Msg → Msg) : Heap × Obj :=
  ({ h with store := fun i => if i ∈ o.abs then f (h.store i) else h.store i }, o)

/-- the identity behaviour every public operation on an object has (checked against CPython `id()`
    by the harness): it writes only identities the object holds, and afterwards the object holds
    identities it held before or freshly allocated ones -/
structure OwnStep (h h' : Heap) (o o' : Obj) : Prop where
  mono : h.next ≤ h'.next
  frame : ∀ i, i < h.next → i ∉ o.ids → h'.store i = h.store i
  own : ∀ i ∈ o'.ids, i ∈ o.ids ∨ (h.next ≤ i ∧ i < h'.next)

/-- a derivation (`copy`, the repaired `split` / `sequences_split_bars`, `Bar.copy`, …): the derived
    object holds only freshly allocated identities and nothing existing is written -/
structure Derive (h h' : Heap) (d : Obj) : Prop where
  mono : h.next ≤ h'.next
  frame : ∀ i, i < h.next → h'.store i = h.store i
  fresh : ∀ i ∈ d.ids, h.next ≤ i ∧ i < h'.next

end SCoda
