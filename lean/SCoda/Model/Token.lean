/-
  Model of `MultiTrackLargeVocabularyNotelikeTokeniser` (notelike_tokenisation.py):
  structured tokens, configuration, vocabulary construction (445-507), `tokenise` core
  (86-246), `detokenise` (248-338), `get_info` (348-437), `encode`/`decode`.

  Tokens are structured values; `Render.lean` turns them into the Python strings (and back)
  for the correspondence check.  Token text is compared, not reasoned about (DESIGN §5).
-/
import SCoda.Model.Pairing
namespace SCoda

inductive Tok
  | pad | sta | sto | bar
  | rest (v : Int)
  | trk (t : Int) | val (v : Int) | vel (v : Int)
  /-- note token: optional fused track, pitch, optional fused value, optional fused velocity -/
  | note (trk : Option Int) (pitch : Int) (val : Option Int) (vel : Option Int)
  | tsig (num den : Int)
  deriving DecidableEq, Repr, Inhabited

structure Cfg where
  ppqn : Int := 24
  numTracks : Nat := 1
  pitchLo : Int := 21
  pitchHi : Int := 108
  steps : List Int          -- sorted ascending (the constructor sorts)
  values : List Int         -- sorted ascending
  bins : List Int           -- `get_velocity_bins(velocity_bins)`
  tsLo : Int := 2
  tsHi : Int := 16
  running : Bool := true
  fuseTrk : Bool := true
  fuseVal : Bool := true
  fuseVel : Bool := true
  simplifyTs : Bool := true
  defNum : Int := 8         -- DEFAULT_TIME_SIGNATURE_NUMERATOR
  defDen : Int := 8         -- DEFAULT_TIME_SIGNATURE_DENOMINATOR
  deriving Repr

/-- `int(ppqn * 4 * numerator / denominator)` -/
def Cfg.capacity (c : Cfg) (n d : Int) : Int := (c.ppqn * 4 * n) / d

/-! ### Vocabulary -/

def rangeInt (lo hi : Int) : List Int := (List.range (hi + 1 - lo).toNat).map (fun (i : Nat) => lo + (i : Int))

/-- The construction sequence of `_construct_dictionary`: entry `i` is the key that receives
    id `i` (a later duplicate key overwrites the id of an earlier one in the Python dict). -/
def vocabSeq (c : Cfg) : List Tok :=
  let tracks := (List.range c.numTracks).map (fun (i : Nat) => (i : Int))
  let specials := [Tok.pad, .sta, .sto, .bar]
  let rests := c.steps.map Tok.rest
  let trkSingles := if c.fuseTrk then [] else tracks.map Tok.trk
  let valSingles := if c.fuseVal then [] else c.values.map Tok.val
  let velSingles := if c.fuseVel then [] else c.bins.map Tok.vel
  let trkOpts : List (Option Int) := if c.fuseTrk then tracks.map some else [Option.none]
  let valOpts : List (Option Int) := if c.fuseVal then c.values.map some else [Option.none]
  let velOpts : List (Option Int) := if c.fuseVel then c.bins.map some else [Option.none]
  let pitches := rangeInt c.pitchLo c.pitchHi
  let notes := trkOpts.flatMap fun t => pitches.flatMap fun p => valOpts.flatMap fun v =>
                 velOpts.map fun w => Tok.note t p v w
  let sigs := (rangeInt c.tsLo c.tsHi).map (fun n => Tok.tsig n c.defDen)
  specials ++ rests ++ trkSingles ++ valSingles ++ velSingles ++ notes ++ sigs

/-- `_dictionary_size` -/
def dictionarySize (c : Cfg) : Nat := (vocabSeq c).length

def lastIdxGo (t : Tok) : List Tok → Nat → Option Nat → Option Nat
  | [], _, best => best
  | x :: xs, i, best => lastIdxGo t xs (i + 1) (if x = t then some i else best)

/-- `dictionary[token]` (the last id assigned to that key; KeyError = none) -/
def encodeTok (c : Cfg) (t : Tok) : Option Nat := lastIdxGo t (vocabSeq c) 0 Option.none

/-- `inverse_dictionary[id]`: defined only for ids that survived in the dict -/
def decodeId (c : Cfg) (i : Nat) : Option Tok :=
  match (vocabSeq c)[i]? with
  | some t => if encodeTok c t = some i then some t else Option.none
  | Option.none => Option.none

def encode (c : Cfg) (ts : List Tok) : Option (List Nat) := ts.mapM (encodeTok c)
def decode (c : Cfg) (is : List Nat) : Option (List Tok) := is.mapM (decodeId c)

/-! ### tokenise -/

structure TokSt where
  curTime : Int := 0
  curTimeBar : Int := 0
  tsNum : Int
  tsDen : Int
  capRem : Int
  prvTrack : Int := -1
  prvValue : Int := -1
  prvVel : Int := -1
  deriving DecidableEq, Repr

/-- the state a call starts from when `state_dict` is empty -/
def TokSt.init (c : Cfg) : TokSt :=
  { tsNum := c.defNum, tsDen := c.defDen, capRem := c.capacity c.defNum c.defDen }

/-- largest step ≤ `n` in the ascending list `steps` (`next(s for s in reversed(steps) if n >= s)`) -/
def largestLe (steps : List Int) (n : Int) : Option Int :=
  steps.foldl (fun best s => if n >= s then some s else best) Option.none

/-- `_apply_rest(rest)`: emitted tokens (reversed onto `acc`) and the clock triple
    `(cur_time, cur_time_bar, cap_remaining)`. -/
def applyRest (c : Cfg) (capTotal : Int) :
    Nat → Int → (Int × Int × Int) → List Tok → Except Err ((Int × Int × Int) × List Tok)
  | 0, buf, st, acc => if buf > 0 then .error .fuel else .ok (st, acc)
  | fuel + 1, buf, (cur, bar, rem), acc =>
    if buf > 0 then
      let nxt := min buf rem
      match c.steps.getLast? with
      | Option.none => .error .indexError
      | some last =>
        if !(nxt > last || c.steps.any (fun s => nxt >= s)) then .error .tokenisationError else
        let v := if nxt > last then some last else largestLe c.steps nxt
        match v with
        | Option.none => .error .tokenisationError
        | some v =>
          let cur := cur + v
          let bar := bar + v
          let rem := rem - v
          let acc := Tok.rest v :: acc
          if rem == 0 then applyRest c capTotal fuel (buf - v) (cur, 0, capTotal) (Tok.bar :: acc)
          else applyRest c capTotal fuel (buf - v) (cur, bar, rem) acc
    else .ok ((cur, bar, rem), acc)

/-- `np.digitize(v, bins, right=True)` on non-decreasing bins: number of bins below `v` -/
def binIndex (bins : List Int) (v : Int) : Nat := (bins.filter (fun b => b < v)).length

structure TkLoop where
  st : TokSt
  capTotal : Int
  toks : List Tok := []     -- reversed

def tokEvent (c : Cfg) (shift : Int) (l : TkLoop) (ev : Int × Pairing) : Except Err TkLoop := do
  match ev.2 with
  | [] => .error .indexError
  | m :: restP =>
    let msgTime := m.time + shift
    let (clk, toks) ← if l.st.curTime != msgTime then
        applyRest c l.capTotal ((msgTime - l.st.curTime).toNat + 1) (msgTime - l.st.curTime)
          (l.st.curTime, l.st.curTimeBar, l.st.capRem) l.toks
      else .ok ((l.st.curTime, l.st.curTimeBar, l.st.capRem), l.toks)
    let st := { l.st with curTime := clk.1, curTimeBar := clk.2.1, capRem := clk.2.2 }
    let l := { l with st := st, toks := toks }
    match m.ty with
    | .noteOn =>
      match restP with
      | [] => .error .indexError
      | off :: _ =>
        let ch := m.ch
        let value := off.time - m.time
        match c.bins[binIndex c.bins m.vel]? with
        | Option.none => .error .indexError
        | some vel =>
          if !(c.pitchLo <= m.note && m.note <= c.pitchHi) then .error .tokenisationError else
          if !c.values.contains value then .error .tokenisationError else
          let pre1 := if !c.fuseTrk && (ch != st.prvTrack || !c.running) then [Tok.trk ch] else []
          let pre2 := if !c.fuseVal && (value != st.prvValue || !c.running) then [Tok.val value] else []
          let pre3 := if !c.fuseVel && (vel != st.prvVel || !c.running) then [Tok.vel vel] else []
          let tok := Tok.note (if c.fuseTrk then some ch else Option.none) m.note
                       (if c.fuseVal then some value else Option.none)
                       (if c.fuseVel then some vel else Option.none)
          .ok { l with toks := tok :: (pre3.reverse ++ pre2.reverse ++ pre1.reverse ++ l.toks),
                       st := { st with prvTrack := ch, prvValue := value, prvVel := vel } }
    | .timeSignature =>
      if st.curTimeBar > 0 then .ok l else
      -- scaled = numerator * (8 / denominator) must be an integer
      if (m.num * c.defDen) % m.den != 0 then .error .tokenisationError else
      let scaled := (m.num * c.defDen) / m.den
      if !(c.tsLo <= scaled && scaled <= c.tsHi) then .error .tokenisationError else
      let capTotal := c.capacity m.num m.den
      .ok { l with capTotal := capTotal, toks := Tok.tsig scaled c.defNum :: l.toks,
                   st := { st with tsNum := m.num, tsDen := m.den, capRem := capTotal } }
    | _ => .ok l

/-- the body of `tokenise` after the merge: from the interleaved pairings and the carried
    state to the tokens and the new state -/
def tokeniseCore (c : Cfg) (st : TokSt) (evs : List (Int × Pairing)) : Except Err (List Tok × TokSt) := do
  let capTotal := c.capacity st.tsNum st.tsDen
  let l ← foldlM'' (tokEvent c st.curTime) { st := st, capTotal := capTotal } evs
  let (clk, toks) ← if l.st.curTimeBar > 0 && l.st.capRem > 0 then
      applyRest c l.capTotal (l.st.capRem.toNat + 1) l.st.capRem (l.st.curTime, l.st.curTimeBar, l.st.capRem) l.toks
    else .ok ((l.st.curTime, l.st.curTimeBar, l.st.capRem), l.toks)
  .ok (toks.reverse, { l.st with curTime := clk.1, curTimeBar := clk.2.1, capRem := clk.2.2 })
where
  foldlM'' {α β} (f : β → α → Except Err β) : β → List α → Except Err β
    | b, [] => .ok b
    | b, x :: xs => match f b x with | .ok b' => foldlM'' f b' xs | .error e => .error e

/-! ### detokenise -/

structure DetokSt where
  curTime : Int := 0
  curTimeBar : Int := 0
  tsNum : Int
  tsDen : Int
  capTotal : Int
  capRem : Int
  prvTrack : Int := 0
  prvValue : Int := 24
  prvVel : Int := 127
  seqs : List (List Msg)       -- absolute view of each output sequence
  deriving Repr

def DetokSt.init (c : Cfg) : DetokSt :=
  { tsNum := c.defNum, tsDen := c.defDen, capTotal := c.capacity c.defNum c.defDen,
    capRem := c.capacity c.defNum c.defDen, seqs := List.replicate c.numTracks [] }

/-- one part of a token, in the order `detokenise` visits them after sorting -/
inductive Part
  | pad | sta | sto | bar | rest (v : Int) | trk (t : Int) | val (v : Int) | vel (v : Int)
  | pit (p : Int) | tsig (n d : Int)
  deriving DecidableEq, Repr

/-- parts of a token sorted by `sort_order` (track, value, velocity, pitch) -/
def Tok.parts : Tok → List Part
  | .pad => [.pad] | .sta => [.sta] | .sto => [.sto] | .bar => [.bar]
  | .rest v => [.rest v] | .trk t => [.trk t] | .val v => [.val v] | .vel v => [.vel v]
  | .note t p v w =>
    (match t with | some t => [Part.trk t] | Option.none => []) ++
    (match v with | some v => [Part.val v] | Option.none => []) ++
    (match w with | some w => [Part.vel w] | Option.none => []) ++ [Part.pit p]
  | .tsig n d => [.tsig n d]

def addAbs (seqs : List (List Msg)) (i : Nat) (m : Msg) : List (List Msg) :=
  modifyAt (fun l => insort l m) i seqs

def dpart (c : Cfg) (d : DetokSt) : Part → Except Err DetokSt
  | .pad | .sta | .sto => .ok d
  | .bar =>
    let t := d.curTime + d.capRem
    .ok { d with curTime := t, curTimeBar := 0, capRem := d.capTotal,
                 seqs := d.seqs.map (fun l => insort l (Msg.mkInternal 0 t)) }
  | .rest v => .ok { d with curTime := d.curTime + v, curTimeBar := d.curTimeBar + v, capRem := d.capRem - v }
  | .trk t => .ok { d with prvTrack := t }
  | .val v => .ok { d with prvValue := v }
  | .vel v => .ok { d with prvVel := v }
  | .pit p =>
    if d.prvTrack < 0 || d.prvTrack.toNat >= d.seqs.length then .error .indexError else
    let i := d.prvTrack.toNat
    let seqs := addAbs d.seqs i (Msg.mkOn 0 p d.prvVel d.curTime)
    let seqs := addAbs seqs i (Msg.mkOff 0 p (d.curTime + d.prvValue))
    .ok { d with seqs := seqs }
  | .tsig a b =>
    if d.curTimeBar > 0 then .ok d else
    let switched := d.tsNum != a || d.tsDen != b
    let capTotal := c.capacity a b
    let simp := c.simplifyTs && a % 2 == 0 && b % 2 == 0
    let n := if simp then a / 2 else a
    let dd := if simp then b / 2 else b
    let seqs := if switched || !c.running then
        (if d.seqs.length == 0 then d.seqs else addAbs d.seqs 0 (Msg.mkTimeSig 0 n dd d.curTime))
      else d.seqs
    if (switched || !c.running) && d.seqs.length == 0 then .error .indexError else
    .ok { d with tsNum := n, tsDen := dd, capTotal := capTotal, capRem := capTotal, seqs := seqs }

def dstep (c : Cfg) (d : DetokSt) (t : Tok) : Except Err DetokSt :=
  t.parts.foldl (fun (acc : Except Err DetokSt) p =>
    match acc with | .ok d => dpart c d p | .error e => .error e) (Except.ok d)

/-- `detokenise(tokens)`: absolute views of the returned sequences -/
def detokenise (c : Cfg) (toks : List Tok) : Except Err (List (List Msg)) :=
  match toks.foldl (fun (acc : Except Err DetokSt) t =>
            match acc with | .ok d => dstep c d t | .error e => .error e)
          (Except.ok (DetokSt.init c)) with
  | Except.ok d => Except.ok d.seqs
  | Except.error e => Except.error e

/-! ### get_info -/

structure InfoSt where
  pos : Int := 0
  curTime : Int := 0
  curTimeBar : Int := 0
  capTotal : Int
  capRem : Int
  prvPitch : Int := 69
  -- (position, time, time in bar, pitch or none (nan), circle of fifths or none (nan))
  out : List (Int × Int × Int × Option Int × Option Int) := []   -- reversed

def infoStep (c : Cfg) (cof : Int → Int) (impute : Bool) (s : InfoSt) (t : Tok) : InfoSt :=
  let nanOrPrv : Option Int × Option Int :=
    if impute then (some s.prvPitch, some (cof s.prvPitch)) else (Option.none, Option.none)
  let row (pc : Option Int × Option Int) := (s.pos, s.curTime, s.curTimeBar, pc.1, pc.2)
  let s' : InfoSt := match t with
    | .bar => { s with curTime := s.curTime + s.capRem, curTimeBar := 0, capRem := s.capTotal,
                       out := row nanOrPrv :: s.out }
    | .rest v => { s with curTime := s.curTime + v, curTimeBar := s.curTimeBar + v, capRem := s.capRem - v,
                          out := row nanOrPrv :: s.out }
    | .note _ p _ _ => { s with out := row (some p, some (cof p)) :: s.out }
    | .tsig a b =>
      if s.curTimeBar > 0 then { s with out := row nanOrPrv :: s.out }
      else { s with capTotal := c.capacity a b, capRem := c.capacity a b, out := row nanOrPrv :: s.out }
    | _ => { s with out := row nanOrPrv :: s.out }
  { s' with pos := s.pos + 1 }

def getInfo (c : Cfg) (cof : Int → Int) (impute : Bool) (toks : List Tok) :
    List (Int × Int × Int × Option Int × Option Int) :=
  let cap := c.capacity c.defNum c.defDen
  ((toks.foldl (infoStep c cof impute) { capTotal := cap, capRem := cap }).out).reverse

end SCoda
