/-
  Model of `AbsoluteSequence.quantise` (absolute_sequence.py:181-290, after the repairs of
  D10/D11), `util.find_minimal_distance`, and `quantise_note_lengths` (292-370).
-/
import SCoda.Model.Pairing
namespace SCoda

/-- `find_minimal_distance(element, collection)`: first index of minimal `|c - e|`
    (index 0 for an empty collection). -/
def fmdGo (e : Int) : List Int → Nat → Option (Nat × Int) → Nat
  | [], _, best => match best with | some (i, _) => i | Option.none => 0
  | c :: cs, i, best =>
    let d := (c - e).natAbs
    match best with
    | Option.none => if d == 0 then i else fmdGo e cs (i + 1) (some (i, d))
    | some (_, bd) => if d < bd then (if d == 0 then i else fmdGo e cs (i + 1) (some (i, d)))
                      else fmdGo e cs (i + 1) best

def findMinimalDistance (e : Int) (coll : List Int) : Nat := fmdGo e coll 0 Option.none

/-- `valid_positions[find_minimal_distance(t, valid_positions)]` (IndexError if empty) -/
def nearest (t : Int) (valid : List Int) : Except Err Int :=
  match valid[findMinimalDistance t valid]? with
  | some v => .ok v
  | Option.none => .error .indexError

def possiblePositions (steps : List Int) (t : Int) : List Int :=
  let left := steps.map (fun s => (t / s) * s)
  let right := steps.map (fun s => (t / s) * s + s)
  left ++ right

structure QSt where
  out     : List Msg := []                          -- quantised_messages (reversed)
  opens   : Assoc (Int × Int) Int := []             -- open_messages: key ↦ quantised onset
  timings : Assoc (Int × Int) (List Int) := []      -- message_timings

def qStep (steps : List Int) (s : QSt) (m : Msg) : Except Err QSt := do
  let possible := possiblePositions steps m.time
  let k := m.nkey
  match m.ty with
  | .noteOn =>
    let t ← nearest m.time possible
    -- note not yet closed: close it at the new onset
    let s := if s.opens.contains k then
        { s with out := Msg.mkOff m.ch m.note t :: s.out, opens := s.opens.erase k,
                 timings := s.timings.set k ((s.timings.get? k).getD [] ++ [t]) }
      else s
    match s.timings.get? k with
    | Option.none =>
      .ok { s with out := { m with time := t } :: s.out, opens := s.opens.set k t, timings := s.timings.set k [t] }
    | some tm =>
      match tm[1]? with
      | Option.none => .error .indexError
      | some lastOff =>
        if !(t < lastOff) then
          .ok { s with out := { m with time := t } :: s.out, opens := s.opens.set k t, timings := s.timings.set k [t] }
        else .ok s
  | .noteOff =>
    match s.opens.get? k with
    | some openT =>
      let valid := possible.filter (fun p => !(p - openT <= 0))
      let valid := if valid.length == 0 then [openT] else valid
      let t ← nearest m.time valid
      .ok { s with out := { m with time := t } :: s.out, opens := s.opens.erase k,
                   timings := s.timings.set k ((s.timings.get? k).getD [] ++ [t]) }
    | Option.none => .ok s
  | _ =>
    let t ← nearest m.time possible
    .ok { s with out := { m with time := t } :: s.out }

/-- indices of collapsed notes, in discovery order `[j1, i1, j2, i2, …]` -/
def collapsedGo : List Msg → Nat → Assoc (Int × Int) (Nat × Int) → List Nat → Except Err (List Nat)
  | [], _, _, acc => .ok acc
  | m :: ms, i, tbl, acc =>
    match m.ty with
    | .noteOn => collapsedGo ms (i + 1) (tbl.set m.nkey (i, m.time)) acc
    | .noteOff =>
      match tbl.get? m.nkey with
      | Option.none => .error .keyError
      | some (j, t) =>
        collapsedGo ms (i + 1) (tbl.erase m.nkey) (if m.time - t <= 0 then acc ++ [j, i] else acc)
    | _ => collapsedGo ms (i + 1) tbl acc

def removeIndices (l : List Msg) (idx : List Nat) : List Msg :=
  (l.zipIdx.filter (fun p => !idx.contains p.2)).map (·.1)

def foldlM' {α β} (f : β → α → Except Err β) : β → List α → Except Err β
  | b, [] => .ok b
  | b, x :: xs => match f b x with | .ok b' => foldlM' f b' xs | .error e => .error e

/-- `AbsoluteSequence.quantise(step_sizes)` -/
def quantise (steps : List Int) (a : List Msg) : Except Err (List Msg) := do
  let s ← foldlM' (qStep steps) {} a
  let q := s.out.reverse
  let idx ← collapsedGo q 0 [] []
  .ok (sortAbs (removeIndices q idx))

/-- Python's `list.remove(x)`: drops the first occurrence -/
def removeFirst (x : Int) : List Int → List Int
  | [] => []
  | y :: ys => if y == x then ys else y :: removeFirst x ys

/-- the valid durations of one note (lines 331-351) -/
def validDurations (values : List Int) (dne : Bool) (onT offT : Int) (nextOn : Option Int) : List Int :=
  let cur := offT - onT
  let v1 := match nextOn with
    | some nt => values.foldl (fun v x => if offT + (x - cur) > nt then removeFirst x v else v) values
    | Option.none => values
  values.foldl (fun v x => if (x - cur > 0) && dne && v.contains x then removeFirst x v else v) v1

/-- onset of the next pairing of the same pitch after position `i` in the channel's list
    (`note_occurrences[note][index + 1][0].time`, where `index` is the first position in
    `note_occurrences[note]` that compares equal to this pairing — `list.index` uses `==`
    on lists of messages, i.e. element identity, so it is this pairing itself). -/
def nextOnset (ps : List Pairing) (i : Nat) (note : Int) : Option Int :=
  match (ps.drop (i + 1)).find? (fun p => match p with | m :: _ => m.note == note | [] => false) with
  | some (m :: _) => some m.time
  | _ => Option.none

def qnlChannel (values : List Int) (dne : Bool) (ps : List Pairing) : Except Err (List Pairing) :=
  (ps.zipIdx).foldl (fun acc pi => do
    let out ← acc
    match pi.1 with
    | [on, off] =>
      let valid := validDurations values dne on.time off.time (nextOnset ps pi.2 on.note)
      if valid.length == 0 then .ok (out ++ [[]])
      else
        let cur := off.time - on.time
        let best ← nearest cur valid
        .ok (out ++ [[on, { off with time := off.time + (best - cur) }]])
    | _ => .error .indexError) (.ok [])

/-- `quantise_note_lengths(note_values, standard_length, do_not_extend)` -/
def quantiseNoteLengths (values : List Int) (stdLen : Int) (dne : Bool) (a : List Msg) :
    Except Err (List Msg) := do
  let sorted := sortAbs a
  let cp := pairingsSorted notePairTypes stdLen true sorted
  let notes ← foldlM' (fun acc (c : Int × List Pairing) => do
      let ps ← qnlChannel values dne c.2
      .ok (acc ++ ps.flatten)) [] cp
  let others := sorted.filter (fun m => m.ty != .noteOn && m.ty != .noteOff)
  .ok (sortAbs (notes ++ others))

end SCoda
