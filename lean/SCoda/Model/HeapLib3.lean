/-
  Support library of the identity translation, part 3 (`tools/py2lean_heap3.py` → `Gen/HeapFns3.lean`, tie `Props/HeapTie3.lean`):
  the four view-level methods that `Model/HeapLib.lean` still has as LINKS — `RelativeSequence.to_absolute_sequence`,
  `AbsoluteSequence.to_relative_sequence`, `RelativeSequence.normalise_relative`, `RelativeSequence.pad` — translated statement
  by statement over the cell heap of `Model/HeapOps.lean`.

  Everything here is a model of the PYTHON LANGUAGE (not of S-Coda), in the monad `HeapLib.HM`:
  * `needInt`        an operand of `+ - * // < <= > >=` that may be `None` (`pyNone`, Model/Msg.lean): Python raises `TypeError`.
                     `HErr` (Model/HeapLib.lean) has no `TypeError`; in the translations of this part `HErr.noneAttr` stands for
                     "an operation on `None`" (`AttributeError` or `TypeError`), `HErr.index` for a failed lookup
                     (`IndexError` or `KeyError`).
  * `liftSort`       an exception of `list.sort` (a `TypeError` of the key comparison, `SortLib.SortErr`) in `HM`.
  * `pyIndex`        `xs[i]` for an integer `i` (negative indices count from the end; `IndexError`).
  * dicts            insertion-ordered association lists (as `HeapLib2.dictSet` / `dictDel`): `d[k]`, `d.get(k, dflt)`,
                     `d.setdefault(k, v)`, `d.keys()`.
  * `dropLastM`      `xs.pop(-1)` as a statement (`IndexError` on an empty list).
  Core Lean only.
-/
import SCoda.Model.HeapLib2
import SCoda.Model.SortLib
namespace SCoda.HeapLib3
open SCoda SCoda.HeapOps SCoda.HeapLib

/-- an operand of integer arithmetic / of an ordering comparison: `None` raises `TypeError` -/
def needInt (x : Int) : HM Unit := if x = pyNone then HM.fail .noneAttr else pure ()

/-- the result of `list.sort` in `HM`: a `TypeError` of the key comparison propagates -/
def liftSort {α : Type} (r : Except SortLib.SortErr α) : HM α :=
  match r with
  | .ok a => pure a
  | .error _ => HM.fail .noneAttr

/-- `xs[i]` for an integer `i`: negative indices count from the end; out of range raises `IndexError` -/
def pyIndex {α : Type} (xs : List α) (i : Int) : HM α :=
  let j : Int := if i < 0 then i + xs.length else i
  if j < 0 then HM.fail .index else
  match xs[j.toNat]? with
  | some a => pure a
  | none => HM.fail .index

/-- `d.get(k)` as an `Option` -/
def dictGet? {κ ν : Type} [DecidableEq κ] : List (κ × ν) → κ → Option ν
  | [], _ => none
  | (k', v') :: d, k => if k' = k then some v' else dictGet? d k

/-- `d[k]` (`KeyError`: `HErr.index`) -/
def dictGet {κ ν : Type} [DecidableEq κ] (d : List (κ × ν)) (k : κ) : HM ν :=
  match dictGet? d k with
  | some v => pure v
  | none => HM.fail .index

/-- `d.get(k, dflt)` -/
def dictGetD {κ ν : Type} [DecidableEq κ] (d : List (κ × ν)) (k : κ) (dflt : ν) : ν := (dictGet? d k).getD dflt

/-- `d.setdefault(k, v)` (result dropped): an existing key keeps its value -/
def dictSetDefault {κ ν : Type} [DecidableEq κ] (d : List (κ × ν)) (k : κ) (v : ν) : List (κ × ν) :=
  match dictGet? d k with
  | some _ => d
  | none => d ++ [(k, v)]

/-- `d.keys()`, in insertion order -/
def dictKeys {κ ν : Type} (d : List (κ × ν)) : List κ := d.map Prod.fst

/-- `xs.pop(-1)` / `xs.pop()` as a statement: the list without its last element; `IndexError` on an empty list -/
def dropLastM {α : Type} (xs : List α) : HM (List α) :=
  match xs with
  | [] => HM.fail .index
  | _ :: _ => pure xs.dropLast

end SCoda.HeapLib3
