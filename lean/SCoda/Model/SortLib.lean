/-
  Support library for the translation of `AbsoluteSequence.sort` and `MessageType.__lt__`
  (tools/py2lean_sort.py → Gen/SortFns.lean; tie: Props/SortTie.lean).

  Everything here is a model of the PYTHON LANGUAGE (not of S-Coda): the values that can occur in a sort key and
  their `==` / `<`, tuple comparison, `list.index`, and `list.sort(key=…, reverse=…)`.

  * `KVal`        a key component: `None`, an `int`, or a member of `MessageType`.
  * `KVal.lt`     Python's binary `<` protocol on these three types: `a.__lt__(b)`, then the reflected `b.__gt__(a)`,
                  then `TypeError`.  `int.__lt__` answers `NotImplemented` for a non-int; `NoneType` and `Enum` define
                  no ordering; `MessageType.__lt__` is a user method that accepts ANY right operand — it is a parameter
                  (`mlt`), filled with the translated method by the generated file.
  * `tupleLt`     CPython `tuplerichcompare` for `<`: the first index whose items are not `==` decides, by the items'
                  own `<`; without such an index the shorter tuple is smaller.  Items behind that index are never
                  looked at — in particular never compared, so a `None` there raises nothing.
  * `pyListSort`  `list.sort(key=f, reverse=r)`.  ASSUMPTION (the only one, DESIGN §2.2): CPython's `list.sort` is a
                  STABLE COMPARISON sort that uses only `<` on the keys and lets an exception of `<` escape.
                  The model is the stable insertion sort `isortM` (in `Except`, so a raising comparison raises).
                  `Lemmas/SortTieL.lean` proves `stable_sort_unique`: for a strict weak order every function whose
                  output is a permutation, sorted, and keeps the relative order of equivalent elements returns exactly
                  `isortBy lt l` — so the choice of insertion sort instead of timsort is not an assumption.
                  `reverse=True` is "reverse, sort, reverse" (that is how CPython keeps stability).
                  The key function is called once per element by CPython; the translated key functions are pure, so
                  calling them at every comparison gives the same result.

  Core Lean only; every function is structurally recursive (so `decide` / `#eval` compute).
-/
import SCoda.Model.Msg
namespace SCoda.SortLib

open SCoda

/-- what a comparison / `list.index` can raise -/
inductive SortErr
  | typeError      -- `'<' not supported between instances of …`
  | valueError     -- `x is not in list`
  deriving DecidableEq, Repr, Inhabited

/-- a key component: `None`, an int, or a `MessageType` member -/
inductive KVal
  | none
  | int (i : Int)
  | mtype (t : MType)
  deriving DecidableEq, Repr, Inhabited

/-- reading an int-or-`None` attribute of a `Msg` (`None` is stored as `pyNone = -1`, Model/Msg.lean) -/
def KVal.ofField (v : Int) : KVal := if v == pyNone then .none else .int v

/-- `v is None` -/
def KVal.isNone : KVal → Bool
  | .none => true
  | _ => false

/-- Python `a == b` on key values: `None == None`, ints by value, enum members by identity, mixed types `False` -/
def KVal.eq (a b : KVal) : Bool := decide (a = b)

/-- Python `a < b`.  `mlt self other` is `MessageType.__lt__(self, other)`; it is called whatever `other` is. -/
def KVal.lt (mlt : MType → KVal → Except SortErr Bool) : KVal → KVal → Except SortErr Bool
  | .int a, .int b => pure (decide (a < b))
  | .mtype a, b => mlt a b
  | _, _ => throw .typeError

/-- `l.index(x)`: position of the first item `== x`, `ValueError` without one -/
def pyIndex {α} (eq : α → α → Bool) : List α → α → Except SortErr Nat
  | [], _ => throw .valueError
  | y :: ys, x => if eq y x then pure 0 else do return (← pyIndex eq ys x) + 1

/-- Python `a < b` on two tuples (CPython `tuplerichcompare`) -/
def tupleLt {κ ε} (lt : κ → κ → Except ε Bool) (eq : κ → κ → Bool) : List κ → List κ → Except ε Bool
  | [], [] => pure false
  | [], _ :: _ => pure true
  | _ :: _, [] => pure false
  | a :: as, b :: bs => if eq a b then tupleLt lt eq as bs else lt a b

/-! ### `list.sort` -/

/-- insert `x` behind every element that is strictly smaller (so in front of the elements it ties with) -/
def insM {α ε} (lt : α → α → Except ε Bool) (x : α) : List α → Except ε (List α)
  | [] => pure [x]
  | y :: ys => do
    if (← lt y x) then
      return y :: (← insM lt x ys)
    else
      return x :: y :: ys

/-- stable insertion sort with a comparison that may raise -/
def isortM {α ε} (lt : α → α → Except ε Bool) : List α → Except ε (List α)
  | [] => pure []
  | x :: xs => do insM lt x (← isortM lt xs)

/-- `l.sort(key=key, reverse=reverse)` with `klt` the `<` of the keys -/
def pyListSort {α κ ε} (key : α → κ) (klt : κ → κ → Except ε Bool) (reverse : Bool) (l : List α) : Except ε (List α) :=
  if reverse then
    List.reverse <$> isortM (fun a b => klt (key a) (key b)) l.reverse
  else
    isortM (fun a b => klt (key a) (key b)) l

/-! ### the same sort for a total (non-raising) comparison, and what "a stable sort" means -/

def insBy {α} (lt : α → α → Bool) (x : α) : List α → List α
  | [] => [x]
  | y :: ys => if lt y x then y :: insBy lt x ys else x :: y :: ys

/-- the stable insertion sort by a strict comparison `lt` -/
def isortBy {α} (lt : α → α → Bool) : List α → List α
  | [] => []
  | x :: xs => insBy lt x (isortBy lt xs)

/-- `a` and `b` are equivalent (tie): neither is smaller -/
def eqv {α} (lt : α → α → Bool) (a b : α) : Bool := !lt a b && !lt b a

/-- `lt` is a strict weak order on the elements of `l`: irreflexive, transitive, and "not smaller" is transitive
    (equivalently: incomparability is transitive, `strictWeakOrderOn_of_incomp`). -/
structure StrictWeakOrderOn {α} (lt : α → α → Bool) (l : List α) : Prop where
  irrefl : ∀ a ∈ l, lt a a = false
  trans : ∀ a ∈ l, ∀ b ∈ l, ∀ c ∈ l, lt a b = true → lt b c = true → lt a c = true
  negTrans : ∀ a ∈ l, ∀ b ∈ l, ∀ c ∈ l, lt a b = false → lt b c = false → lt a c = false

/-- no element is followed by a strictly smaller one -/
def SortedBy {α} (lt : α → α → Bool) (l : List α) : Prop := l.Pairwise (fun a b => lt b a = false)

/-- `out` is A STABLE SORT of `l` by `lt`: a permutation of `l`, sorted, and for every element `c` the elements
    equivalent to `c` occur in `out` in the same order as in `l` (value-level stability: the subsequence of each
    equivalence class is unchanged). -/
structure IsStableSortOf {α} (lt : α → α → Bool) (l out : List α) : Prop where
  perm : out.Perm l
  sorted : SortedBy lt out
  stable : ∀ c ∈ l, out.filter (eqv lt c) = l.filter (eqv lt c)

end SCoda.SortLib
