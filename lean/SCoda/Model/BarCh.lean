/-
  Channel-parametrised variant of the hand model of `Bar.__init__` / `Bar.copy` (Model/Bar.lean).

  `mkBar` (Model/Bar.lean) models `Bar(sequence, numerator, denominator, key)` with the parameter
  `default_channel` at its default 0: the leading time-signature event is put on channel 0.  `mkBarCh` is the
  same constructor, line by line (bar.py:14-55), with the channel of that event as a parameter: the value that
  `Message(message_type=TIME_SIGNATURE, channel=default_channel, …)` (bar.py:50-53) ends up with, i.e.
  `chanOf default_channel` (message.py:36-37: a `None` channel becomes 0).

  `Bar.copy` (bar.py:57-66, second repair of D37): the copy is constructed on the channel of the bar's own leading
  TIME_SIGNATURE message as it is NOW (`sigChan` of the relative view; 0 if the view holds none) — `Bar.copyOwn`, i.e.
  `Bar.copyCh … (chanOf (sigChan b.seq))`.  (The first repair, source commit f9ef398, stored the constructor's
  `default_channel` and handed THAT on — `Bar.copyCh … (chanOf c)` for the construction-time `c`; it goes stale when the
  bar's messages are moved to another channel afterwards: `C10Ch.stored_channel_copy_differs`.)

  Lemmas/BarChL.lean: `mkBarCh_zero` — the instance 0 is `mkBar`, definitionally, so every theorem about `mkBar`
  is a theorem about `mkBarCh … 0`; `mkBarCh_eq_map` — for every channel the result is `mkBar`'s with the channel
  of the leading event replaced (same exception otherwise), so the C10 theorems transfer (Props/C10Ch.lean).
-/
import SCoda.Model.Bar
namespace SCoda

/-- `Message.__init__` (message.py:36-37): `if self.channel is None: self.channel = 0` -/
def chanOf (c : Int) : Int := if c = pyNone then 0 else c

/-- `Bar(sequence, numerator, denominator, key, default_channel)` with `ch = chanOf default_channel`
    (bar.py:14-55); `mkBar` is the instance `ch = 0` -/
def mkBarCh (ppqn : Int) (rel : List Msg) (n d key ch : Int) : Except Err Bar := do
  let r := normalise rel                                        -- bar.py:23
  let cap := barCapacity ppqn n d                               -- bar.py:26
  let dur := totalWait r                                        -- bar.py:27
  if dur > cap then throw .barError                             -- bar.py:30-31
  let r := if dur < cap then pad cap r else r                   -- bar.py:34-35
  let tss := r.filter (·.ty == .timeSignature)                  -- bar.py:38-39
  if tss.length > 1 then throw .barError                        -- bar.py:41-42
  if !(tss.all (fun m => m.num == n && m.den == d)) then throw .barError   -- bar.py:43-45
  let r := r.filter (·.ty != .timeSignature)                    -- bar.py:48-49
  .ok { seq := Msg.mkTimeSig ch n d pyNone :: r, num := n, den := d, key := key }   -- bar.py:50-53

/-- a copy of the bar constructed on channel `ch`: `Bar(self.sequence.copy(), numerator, denominator, key, <channel>)`
    (bar.py:63-65) with `ch = chanOf <channel>` -/
def Bar.copyCh (ppqn : Int) (b : Bar) (ch : Int) : Except Err Bar := mkBarCh ppqn b.seq b.num b.den b.key ch

/-- bar.py:59-61: `next((msg for msg in self.sequence.rel._messages if msg.message_type == TIME_SIGNATURE), None)`, then
    `time_signature.channel if time_signature is not None else 0` — the channel of the first time-signature message of the
    relative view, 0 if there is none -/
def sigChan (rel : List Msg) : Int :=
  match (rel.filter (·.ty == .timeSignature)).head? with
  | some m => m.ch
  | none => 0

/-- `Bar.copy()` (bar.py:57-66, second repair of D37): a new bar from the bar's relative view, the leading time-signature
    event on the channel of the bar's own (current) time-signature message -/
def Bar.copyOwn (ppqn : Int) (b : Bar) : Except Err Bar := b.copyCh ppqn (chanOf (sigChan b.seq))

/-- replace the channel of the first message -/
def setHeadCh (ch : Int) : List Msg → List Msg
  | [] => []
  | m :: ms => { m with ch := ch } :: ms

/-- a bar with the channel of its leading event replaced -/
def Bar.withSigCh (b : Bar) (ch : Int) : Bar := { b with seq := setHeadCh ch b.seq }

end SCoda
