/-
  Channel-parametrised variant of the hand model of `Bar.__init__` / `Bar.copy` (Model/Bar.lean).

  `mkBar` (Model/Bar.lean) models `Bar(sequence, numerator, denominator, key)` with the parameter
  `default_channel` at its default 0: the leading time-signature event is put on channel 0.  `mkBarCh` is the
  same constructor, line by line (bar.py:14-55), with the channel of that event as a parameter: the value that
  `Message(message_type=TIME_SIGNATURE, channel=default_channel, …)` (bar.py:50-53) ends up with, i.e.
  `chanOf default_channel` (message.py:36-37: a `None` channel becomes 0).

  Since the repair of D37 (`Bar.__init__` stores `default_channel`, bar.py:21; `Bar.copy` hands it on,
  bar.py:59-61) `Bar.copy` of a bar built with `default_channel = c` is `Bar.copyCh … (chanOf c)`.

  Lemmas/BarChL.lean: `mkBarCh_zero` — the instance 0 is `mkBar`, definitionally, so every theorem about `mkBar`
  is a theorem about `mkBarCh … 0`; `mkBarCh_eq_map` — for every channel the result is `mkBar`'s with the channel
  of the leading event replaced (same exception otherwise), so the C10 theorems transfer (Props/C10Ch.lean).
-/
import SCoda.Model.Bar
namespace SCoda

/-- `Message.__init__` (message.py:36-37): `if self.channel is None: self.channel = 0` -/
def chanOf (c : Int) : Int := if c = pyNone then 0 else c

/-- `Bar(sequence, numerator, denominator, key, default_channel)` with `ch = chanOf default_channel`
    (bar.py:14-55); `mkBar` is the instance `ch = 0` -/
def mkBarCh (ppqn : Int) (rel : List Msg) (n d key ch : Int) : Except Err Bar := do
  let r := normalise rel                                        -- bar.py:24
  let cap := barCapacity ppqn n d                               -- bar.py:27
  let dur := totalWait r                                        -- bar.py:28
  if dur > cap then throw .barError                             -- bar.py:31-32
  let r := if dur < cap then pad cap r else r                   -- bar.py:35-36
  let tss := r.filter (·.ty == .timeSignature)                  -- bar.py:39-40
  if tss.length > 1 then throw .barError                        -- bar.py:42-43
  if !(tss.all (fun m => m.num == n && m.den == d)) then throw .barError   -- bar.py:44-46
  let r := r.filter (·.ty != .timeSignature)                    -- bar.py:49-50
  .ok { seq := Msg.mkTimeSig ch n d pyNone :: r, num := n, den := d, key := key }   -- bar.py:51-54

/-- `Bar.copy()` of a bar that remembers `default_channel` (bar.py:58-62, after the repair of D37);
    `ch = chanOf self.default_channel` -/
def Bar.copyCh (ppqn : Int) (b : Bar) (ch : Int) : Except Err Bar := mkBarCh ppqn b.seq b.num b.den b.key ch

/-- replace the channel of the first message -/
def setHeadCh (ch : Int) : List Msg → List Msg
  | [] => []
  | m :: ms => { m with ch := ch } :: ms

/-- a bar with the channel of its leading event replaced -/
def Bar.withSigCh (b : Bar) (ch : Int) : Bar := { b with seq := setHeadCh ch b.seq }

end SCoda
