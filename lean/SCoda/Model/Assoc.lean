/-
  Insertion-ordered association lists with Python `dict` semantics (DESIGN §2.2):
  assignment to an existing key keeps its position, a new key goes to the end,
  `pop` removes the entry.
-/
namespace SCoda

abbrev Assoc (κ ν : Type) := List (κ × ν)

namespace Assoc
variable {κ ν : Type} [DecidableEq κ]

def get? : Assoc κ ν → κ → Option ν
  | [], _ => none
  | (k, v) :: rest, q => if k = q then some v else get? rest q

def contains (d : Assoc κ ν) (q : κ) : Bool := (get? d q).isSome

/-- `d[k] = v` -/
def set : Assoc κ ν → κ → ν → Assoc κ ν
  | [], q, v => [(q, v)]
  | (k, w) :: rest, q, v => if k = q then (k, v) :: rest else (k, w) :: set rest q v

/-- `d.pop(k, None)` (the dictionary part) -/
def erase : Assoc κ ν → κ → Assoc κ ν
  | [], _ => []
  | (k, w) :: rest, q => if k = q then rest else (k, w) :: erase rest q

end Assoc
end SCoda
