/-
  Model of the two conversions between representations.
  * `AbsoluteSequence.to_relative_sequence` (absolute_sequence.py:32-55)
  * `RelativeSequence.to_absolute_sequence` (relative_sequence.py:38-69)
-/
import SCoda.Model.Sort
namespace SCoda

/-- loop of `to_relative_sequence`; `cur` = `current_point_in_time` -/
def toRelGo (cur : Int) : List Msg → List Msg
  | [] => []
  | m :: ms =>
    let w := if m.time > cur then [Msg.mkWait m.ch (m.time - cur)] else []
    let cur' := if m.time > cur then m.time else cur
    let e := if m.ty != .internal then [{ m with time := pyNone }] else []
    w ++ e ++ toRelGo cur' ms

def toRel (a : List Msg) : List Msg := toRelGo 0 a

structure ToAbsSt where
  cur : Int := 0
  defCh : Option Int := none
  cap : Bool := true
  out : List Msg := []   -- reversed

def toAbsStep (s : ToAbsSt) (m : Msg) : ToAbsSt :=
  let defCh := match s.defCh with | some c => some c | none => some m.ch
  if m.ty == .wait then { s with defCh := defCh, cur := s.cur + m.time, cap := false }
  else { s with defCh := defCh, cap := true, out := { m with time := s.cur } :: s.out }

def toAbs (r : List Msg) : List Msg :=
  let s := r.foldl toAbsStep {}
  let sorted := sortAbs s.out.reverse
  if s.cap then sorted else insort sorted (Msg.mkInternal (s.defCh.getD 0) s.cur)

/-- total of the wait messages: the duration of a relative sequence in ticks -/
def totalWait : List Msg → Int
  | [] => 0
  | m :: ms => (if m.ty == .wait then m.time else 0) + totalWait ms

/-- `AbsoluteSequence.get_sequence_duration` (raises IndexError on an empty list) -/
def absDuration (a : List Msg) : Except Err Int :=
  match a.getLast? with
  | some m => .ok m.time
  | none => .error .indexError

end SCoda
