/-
  NEW model file (audit A10, C11 layer 3): the remaining operators of the `PyNum` numeric tower and an
  operator-by-operator transcription of every Python expression that computes a tick (or a default
  step size / note value / velocity bin) through a float.  Core Lean only; loops are fuel-driven and
  return `none` when the fuel runs out, so `decide` / `#eval` compute.

  Each `…Py` definition follows the cited Python line literally: one `PyNum` operator per Python operator,
  in Python's evaluation order; nothing is simplified.  The theorems that these expressions are int-typed
  and equal the integer formulas of the Lean models are in `Lemmas/C11L.lean` / `Props/C11d.lean`.
  (`barCapacityPy`, `splitBarLenPy`, `tokCapacityPy` are already in `Model/PyNum.lean`.)
-/
import SCoda.Model.PyNum
namespace SCoda
namespace PyNum

/-- `a + b`: int only if both are int -/
def add : PyNum → PyNum → PyNum
  | int a, int b => int (a + b)
  | a, b => float (a.toRat + b.toRat)

/-- `a - b`: int only if both are int -/
def sub : PyNum → PyNum → PyNum
  | int a, int b => int (a - b)
  | a, b => float (a.toRat - b.toRat)

/-- `a ** e` for int `a`, int `e`: an int for `e ≥ 0`, a float for `e < 0` -/
def powInt (a e : Int) : PyNum :=
  if 0 ≤ e then int (a ^ e.toNat) else float (1 / ((a : Rat) ^ (-e).toNat))

/-- `a >= b`, `a <= b`, `a < b` compare values across the two types -/
def ge (a b : PyNum) : Bool := decide (b.toRat ≤ a.toRat)
def le (a b : PyNum) : Bool := decide (a.toRat ≤ b.toRat)
def lt (a b : PyNum) : Bool := decide (a.toRat < b.toRat)

/-- `min(a, b)`: the first argument unless the second is strictly smaller — the *type* of the chosen
    argument is kept -/
def pymin (a b : PyNum) : PyNum := if lt b a then b else a

/-- `float(x)` -/
def pyfloat (x : PyNum) : PyNum := float x.toRat

/-- `x.is_integer()` (defined for floats; for ints since Python 3.12 and trivially true) -/
def isInteger : PyNum → Bool
  | int _ => true
  | float q => q.den == 1

/-- the value when int-typed (for comparison with generated data) -/
def tag : PyNum → (Int × Bool)
  | int i => (i, true)
  | float q => (q.floor, false)

end PyNum
open PyNum

/-! ### `Bar.__init__` / `RelativeSequence.pad` -/

/-- relative_sequence.py:175-187 `current_length = 0; … current_length += msg.time` over the wait times -/
def currentLengthPy (waits : List Int) : PyNum :=
  waits.foldl (fun acc t => add acc (.int t)) (.int 0)

/-- relative_sequence.py:194 `time=padding_length - current_length` -/
def padAmountPy (paddingLength : PyNum) (waits : List Int) : PyNum :=
  sub paddingLength (currentLengthPy waits)

/-- the bar capacity of bar.py:26 *without* its `int(…)` — the expression of defect D9 -/
def barCapacityUnguardedPy (n ppqn d : Int) : PyNum :=
  truediv (mul (.int n) (.int ppqn)) (truediv (.int d) (.int 4))

/-! ### tokeniser: eighth scaling (notelike_tokenisation.py:215-219) and halving (325-326) -/

/-- :215 `scaled = msg_numerator * (DEFAULT_TIME_SIGNATURE_DENOMINATOR / msg_denominator)` -/
def eighthScaledPy (n defDen d : Int) : PyNum := mul (.int n) (truediv (.int defDen) (.int d))
/-- :216 `float(scaled).is_integer()` -/
def eighthIsIntegerPy (n defDen d : Int) : Bool := isInteger (pyfloat (eighthScaledPy n defDen d))
/-- :219 `scaled = int(scaled)` -/
def eighthIntPy (n defDen d : Int) : PyNum := pyint (eighthScaledPy n defDen d)

/-- :325-326 `int(cur_time_signature_numerator / 2)` -/
def halfPy (a : Int) : PyNum := pyint (truediv (.int a) (.int 2))

/-! ### MIDI load / save, absolute→relative cap -/

/-- midi_file.py:56 `scaling_factor = PPQN / self.PPQN` -/
def scalingFactorPy (ppqn filePpq : Int) : PyNum := truediv (.int ppqn) (.int filePpq)

/-- midi_file.py:70, 83 `current_point_in_time = 0; … current_point_in_time += (msg.time * scaling_factor)` -/
def loadPointPy (ppqn filePpq : Int) (deltas : List Int) : PyNum :=
  deltas.foldl (fun cur t => add cur (mul (.int t) (scalingFactorPy ppqn filePpq))) (.int 0)

/-- midi_file.py:84 `rounded_point_in_time = round(current_point_in_time)` -/
def loadTimePy (ppqn filePpq : Int) (deltas : List Int) : PyNum := pyround (loadPointPy ppqn filePpq deltas)

/-- midi_track.py:32-40 `time_buffer = 0; … time_buffer += msg.time; … time=int(time_buffer)`
    (and relative_sequence.py:55,67 `time=int(current_point_in_time)`) -/
def saveTimePy (times : List Int) : PyNum :=
  pyint (times.foldl (fun buf t => add buf (.int t)) (.int 0))

/-! ### util.py: note durations, tuplets, dotted notes, velocity bins, defaults -/

/-- util.py:141-144 `i = ub; while i >= 1: durations.append(int(i * base_value)); i /= 2` -/
def noteDurUpPy (base : PyNum) : Nat → PyNum → Option (List PyNum)
  | 0, _ => none
  | fuel + 1, i =>
    if ge i (.int 1) then (noteDurUpPy base fuel (truediv i (.int 2))).map (pyint (mul i base) :: ·)
    else some []

/-- util.py:146-149 `j = 2; while j <= lb: durations.append(int(base_value / j)); j *= 2` -/
def noteDurDownPy (base lb : PyNum) : Nat → PyNum → Option (List PyNum)
  | 0, _ => none
  | fuel + 1, j =>
    if le j lb then (noteDurDownPy base lb fuel (mul j (.int 2))).map (pyint (truediv base j) :: ·)
    else some []

/-- util.py:122-151 `get_note_durations(upper_bound_multiplier, lower_bound_divisor, base_value)` -/
def getNoteDurationsPy (fuel : Nat) (ub lb base : PyNum) : Option (List PyNum) :=
  match noteDurUpPy base fuel ub, noteDurDownPy base lb fuel (.int 2) with
  | some a, some b => some (a ++ b)
  | _, _ => none

/-- util.py:171 `int((note_duration * ratio_denominator) / ratio_numerator)` -/
def tupletPy (nd rn rd : PyNum) : PyNum := pyint (truediv (mul nd rd) rn)

/-- util.py:154-173 `get_tuplet_durations(note_durations, ratio_numerator, ratio_denominator)` -/
def getTupletDurationsPy (nds : List PyNum) (rn rd : PyNum) : List PyNum := nds.map (tupletPy · rn rd)

/-- util.py:194 `note_duration * (1 + (1 - 1 / (2 ** (dotted_note_iteration + 1))))` -/
def dottedCandidatePy (nd : PyNum) (it : Int) : PyNum :=
  mul nd (add (.int 1) (sub (.int 1) (truediv (.int 1) (powInt 2 (it + 1)))))

/-- util.py:192-196: for each iteration, for each duration: keep `int(candidate)` if `candidate.is_integer()` -/
def getDottedNoteDurationsPy (nds : List PyNum) (iterations : Nat) : List PyNum :=
  (List.range iterations).flatMap fun (it : Nat) =>
    nds.filterMap fun nd =>
      let cand := dottedCandidatePy nd (it : Int)
      if isInteger cand then some (pyint cand) else none

/-- util.py:103-108 `get_default_step_sizes(upper_bound_shift, lower_bound_shift)` with base value `ppqn` -/
def getDefaultStepSizesPy (fuel : Nat) (ppqn ubShift lbShift : Int) : Option (List PyNum) :=
  match getNoteDurationsPy fuel (mul (.int 1) (powInt 2 ubShift)) (mul (.int 4) (powInt 2 lbShift)) (.int ppqn) with
  | some q => some (q ++ getTupletDurationsPy q (.int 3) (.int 2))
  | none => none

/-- util.py:111-119 `get_default_note_values()` for the given settings -/
def getDefaultNoteValuesPy (fuel : Nat) (ppqn ub lb : Int) (tuplets : List (Int × Int)) (dotted : Nat) :
    Option (List PyNum) :=
  match getNoteDurationsPy fuel (.int ub) (.int lb) (.int ppqn) with
  | some normal =>
    let triplet := tuplets.flatMap fun t => getTupletDurationsPy normal (.int t.1) (.int t.2)
    some (normal ++ triplet ++ getDottedNoteDurationsPy normal dotted)
  | none => none

/-- util.py:31-32 `bin_size = round(vmax / n)`;
    `[int(min(vmax, ((i + 1) * bin_size) + bin_size / 2)) for i in range(0, n)]` -/
def getVelocityBinsPy (vmax : Int) (n : Nat) : List PyNum :=
  let binSize := pyround (truediv (.int vmax) (.int (n : Int)))
  (List.range n).map fun (i : Nat) =>
    pyint (pymin (.int vmax) (add (mul (add (.int (i : Int)) (.int 1)) binSize) (truediv binSize (.int 2))))

end SCoda
