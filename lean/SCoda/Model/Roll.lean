/-
  Independent musical semantics used to *state* the properties (DESIGN §3 `Roll`):
  timed events of either representation, duration, the sounding relation defined by a
  saturating depth counter, and well-formedness.  Nothing here mentions pairing code.
-/
import SCoda.Model.Conv
namespace SCoda

/-- non-wait messages of a relative list, each stamped (`time :=`) with the tick at which
    it happens; `cur` is the running clock -/
def eventsRelGo (cur : Int) : List Msg → List Msg
  | [] => []
  | m :: ms =>
    if m.ty == .wait then eventsRelGo (cur + m.time) ms
    else { m with time := cur } :: eventsRelGo cur ms

/-- timed events of a relative sequence -/
def eventsRel (r : List Msg) : List Msg := eventsRelGo 0 r

/-- timed events of an absolute sequence: everything but the `INTERNAL` cap messages -/
def eventsAbs (a : List Msg) : List Msg := a.filter (fun m => m.ty != .internal)

/-- duration of an absolute sequence: time of its last message (0 if empty) -/
def durAbs (a : List Msg) : Int := match a.getLast? with | some m => m.time | Option.none => 0

/-- duration of a relative sequence -/
def durRel (r : List Msg) : Int := totalWait r

/-- times are non-decreasing along the list -/
def TimeSorted : List Msg → Prop
  | [] => True
  | [_] => True
  | a :: b :: rest => a.time ≤ b.time ∧ TimeSorted (b :: rest)

def NonNegTimes (a : List Msg) : Prop := ∀ m ∈ a, 0 ≤ m.time
def NonNegWaits (r : List Msg) : Prop := ∀ m ∈ r, m.ty = .wait → 0 ≤ m.time

/-- what `Sequence` keeps true of a fresh absolute view: time-sorted, non-negative ticks,
    and no `WAIT`-typed message (those live in the relative view only) -/
def OkAbs (a : List Msg) : Prop := TimeSorted a ∧ NonNegTimes a ∧ ∀ m ∈ a, m.ty ≠ .wait
/-- what it keeps true of a fresh relative view: non-negative waits and no `INTERNAL`-typed
    message (those live in the absolute view only) -/
def OkRel (r : List Msg) : Prop := NonNegWaits r ∧ ∀ m ∈ r, m.ty ≠ .internal

/-! ### sounding -/

/-- saturating depth of key `k` after the note events of `l` (in list order) -/
def depth (k : Int × Int) : List Msg → Nat → Nat
  | [], d => d
  | m :: ms, d =>
    if m.nkey = k then
      if m.ty == .noteOn then depth k ms (d + 1)
      else if m.ty == .noteOff then depth k ms (d - 1)
      else depth k ms d
    else depth k ms d

/-- key `k` is sounding at tick `t` in the timed event list `evs` (in sequence order):
    after all events with tick ≤ t the depth is positive -/
def SoundingAt (evs : List Msg) (k : Int × Int) (t : Int) : Prop :=
  0 < depth k (evs.filter (fun m => decide (m.time ≤ t))) 0

/-- note events of key `k` strictly alternate on/off, starting with on and ending with off;
    `open_` says whether a note is currently sounding -/
def altFrom (k : Int × Int) : Bool → List Msg → Prop
  | open_, [] => open_ = false
  | open_, m :: ms =>
    if m.nkey = k ∧ m.ty = .noteOn then open_ = false ∧ altFrom k true ms
    else if m.nkey = k ∧ m.ty = .noteOff then open_ = true ∧ altFrom k false ms
    else altFrom k open_ ms

/-- well-formed: for every key the note-ons and note-offs strictly alternate, starting with a
    note-on and ending with a note-off -/
def WF (l : List Msg) : Prop := ∀ k, altFrom k false l

/-! ### notes -/

structure Note where
  ch : Int
  pitch : Int
  on : Int
  off : Int
  vel : Int
  deriving DecidableEq, Repr

/-- pair every note-on with the next note-off of the same `(channel, pitch)`; `opens` holds the
    note-ons waiting for their note-off (a re-trigger replaces the waiting one).  Notes come out in
    the order of their note-offs.  This is the specification-side reading of a timed event list
    and is independent of `get_message_pairings`. -/
def notesGo : List Msg → List Msg → List Note
  | [], _ => []
  | m :: ms, opens =>
    if m.ty == .noteOn then notesGo ms (m :: opens.filter (fun o => o.nkey != m.nkey))
    else if m.ty == .noteOff then
      match opens.find? (fun o => o.nkey == m.nkey) with
      | some o => { ch := o.ch, pitch := o.note, on := o.time, off := m.time, vel := o.vel }
                    :: notesGo ms (opens.filter (fun x => x.nkey != m.nkey))
      | Option.none => notesGo ms opens
    else notesGo ms opens

/-- the notes of a timed event list -/
def notesOf (evs : List Msg) : List Note := notesGo evs []

/-- the non-note timed events -/
def nonNotes (evs : List Msg) : List Msg := evs.filter (fun m => m.ty != .noteOn && m.ty != .noteOff)

end SCoda
