/-
  NEW hand-written prelude of the generated file `Gen/UtilFns.lean` (tools/py2lean_util.py): the Python
  operations of scoda/misc/util.py that are not already in the `PyNum` int/float tower of
  Model/PyNum.lean / Model/PyNumSites.lean.  Core Lean only; everything computes.

  Conventions (part of the trusted base of the translation, exercised by tools/diff_py2lean_util.py):
  * every Python number is a `PyNum` (`int i` or `float q`, the float an exact rational: float *rounding* is
    not modelled; all sites of util.py round only inside `int(…)`, `round(…)`, `.is_integer()` or a comparison,
    where the rational and the IEEE result agree for the magnitudes in question);
  * `math.inf` is the extra point of `PyNumInf`;
  * an operation that can raise returns `Except UErr`; `UErr.inexact` is not a Python exception: it marks an
    operator application that has no exact rational value (`x ** 0.5`), where the model declines to answer;
  * a `while a ⋈ b` loop runs at most `whileFuel a b = ⌊|a − b|⌋ + 2` iterations (measured at loop entry) and
    `UErr.fuel` is thrown if the test still holds afterwards;
  * `np.digitize(x, bins, right=True)` is modelled explicitly (`npDigitizeRight`, from numpy's
    lib/_function_base_impl.py: monotonicity test, `searchsorted(side='left')`, reversed for decreasing bins).
-/
import SCoda.Model.PyNumSites
namespace SCoda.Util
open SCoda SCoda.PyNum

inductive UErr
  | zeroDivisionError | typeError | valueError | indexError | overflowError | inexact | fuel
  deriving DecidableEq, Repr, Inhabited

def UErr.name : UErr → String
  | .zeroDivisionError => "ZeroDivisionError" | .typeError => "TypeError" | .valueError => "ValueError"
  | .indexError => "IndexError" | .overflowError => "OverflowError" | .inexact => "INEXACT" | .fuel => "FUEL"

/-- a number or `math.inf` -/
inductive PyNumInf
  | fin (x : PyNum)
  | inf
  deriving DecidableEq, Repr

namespace PyNumInf
/-- `a < b` -/
def lt : PyNumInf → PyNumInf → Bool
  | fin a, fin b => PyNum.lt a b
  | fin _, inf => true
  | inf, _ => false
def le : PyNumInf → PyNumInf → Bool
  | fin a, fin b => PyNum.le a b
  | _, inf => true
  | inf, fin _ => false
/-- `a == b` (by value, across int / float) -/
def eq : PyNumInf → PyNumInf → Bool
  | fin a, fin b => decide (a.toRat = b.toRat)
  | inf, inf => true
  | _, _ => false
end PyNumInf

def ratAbs (q : Rat) : Rat := if q < 0 then -q else q

/-- `a == b` by value -/
def pyEq (a b : PyNum) : Bool := decide (a.toRat = b.toRat)
/-- `a > b` -/
def pyGt (a b : PyNum) : Bool := PyNum.lt b a

/-- `abs(x)`: the type is kept -/
def pyAbs : PyNum → PyNum
  | .int i => .int (i.natAbs : Int)
  | .float q => .float (ratAbs q)

/-- `-x` -/
def pyNeg : PyNum → PyNum
  | .int i => .int (-i)
  | .float q => .float (-q)

/-- `max(a, b)`: the first argument unless the second is strictly larger -/
def pyMax (a b : PyNum) : PyNum := if PyNum.lt a b then b else a

/-- `a / b` -/
def pyTruediv (a b : PyNum) : Except UErr PyNum :=
  if b.toRat = 0 then .error .zeroDivisionError else .ok (PyNum.truediv a b)

/-- `a // b`: floor division; an int only if both are int -/
def pyFloordiv (a b : PyNum) : Except UErr PyNum :=
  if b.toRat = 0 then .error .zeroDivisionError else
  match a, b with
  | .int x, .int y => .ok (.int (Int.fdiv x y))
  | _, _ => .ok (.float ((a.toRat / b.toRat).floor : Int))

/-- the rational power `q ^ e` for an integer exponent (`q ≠ 0` when `e < 0`) -/
def ratPowInt (q : Rat) (e : Int) : Rat := if 0 ≤ e then q ^ e.toNat else 1 / (q ^ (-e).toNat)

/-- `a ** b`.  int ** non-negative int is an int, int ** negative int a float (`0 ** -1` raises), a float base
    or exponent gives a float when the exponent's value is integral; a non-integral exponent has no exact
    rational value: `UErr.inexact`. -/
def pyPow (a b : PyNum) : Except UErr PyNum :=
  match a, b with
  | .int x, .int e => if x = 0 ∧ e < 0 then .error .zeroDivisionError else .ok (PyNum.powInt x e)
  | _, _ =>
    if b.toRat.den = 1 then
      (if a.toRat = 0 ∧ b.toRat < 0 then .error .zeroDivisionError else .ok (.float (ratPowInt a.toRat b.toRat.num)))
    else .error .inexact

/-- `range(lo, hi)`; a float argument is a TypeError -/
def pyRange (lo hi : PyNum) : Except UErr (List PyNum) :=
  match lo, hi with
  | .int a, .int b => .ok ((List.range (b - a).toNat).map fun (k : Nat) => PyNum.int (a + (k : Int)))
  | _, _ => .error .typeError

/-- `enumerate(l)` -/
def pyEnumerate {α : Type} (l : List α) : List (PyNum × α) :=
  (List.range l.length).zip l |>.map fun (p : Nat × α) => (PyNum.int (p.1 : Int), p.2)

/-- `len(l)` -/
def pyLen {α : Type} (l : List α) : PyNum := .int (l.length : Int)

/-- `l[i]`: negative indices count from the end; a float index is a TypeError -/
def pyGet {α : Type} (l : List α) (i : PyNum) : Except UErr α :=
  match i with
  | .float _ => .error .typeError
  | .int i =>
    let j := if i < 0 then i + (l.length : Int) else i
    if j < 0 then .error .indexError else
    match l[j.toNat]? with
    | some x => .ok x
    | Option.none => .error .indexError

/-- numpy `_monotonicity(bins)`: 1 if non-decreasing (also when empty or constant), -1 if non-increasing, else 0 -/
def npMonotonicity (bins : List PyNum) : Int :=
  let pairs := bins.zip bins.tail
  if pairs.all (fun p => PyNum.le p.1 p.2) then 1
  else if pairs.all (fun p => PyNum.ge p.1 p.2) then -1
  else 0

/-- `np.digitize(x, bins, right=True).item(-1)` for a scalar `x`:
    `searchsorted(bins, x, side='left')` = number of bins `< x` for non-decreasing bins,
    `len(bins) - searchsorted(bins[::-1], x, side='left')` = number of bins `≥ x` for decreasing bins,
    ValueError otherwise.  The result is a Python int. -/
def npDigitizeRight (x : PyNum) (bins : List PyNum) : Except UErr PyNum :=
  let m := npMonotonicity bins
  if m = 0 then .error .valueError
  else if m = -1 then .ok (.int ((bins.filter fun b => PyNum.ge b x).length : Int))
  else .ok (.int ((bins.filter fun b => PyNum.lt b x).length : Int))

/-- fuel of a `while a ⋈ b` loop, measured at loop entry -/
def whileFuel (a b : PyNum) : Nat := (ratAbs (a.toRat - b.toRat)).floor.toNat + 2

/-- printing for the differential test: `i:<int>` or `f:<num>/<den>` -/
def showNum : PyNum → String
  | .int i => s!"i:{i}"
  | .float q => s!"f:{q.num}/{q.den}"

def showList (l : List PyNum) : String := "[" ++ String.intercalate ", " (l.map showNum) ++ "]"

def showRes {α : Type} (sh : α → String) : Except UErr α → String
  | .ok v => sh v
  | .error e => "!" ++ e.name

end SCoda.Util
