/-
  Model of the MIDI round trip:
  * save:  `RelativeSequence.to_midi_track` + `MidiTrack.to_mido_track` (midi_track.py:25-60)
  * load:  `MidiMessage.parse_mido_message` (midi_message.py:25-56) + `MidiFile.convert`
           (midi_file.py:37-149) + `Sequence.sequences_load`
  `mido`'s file writer/reader is not modelled (assumed to carry type, delta time and fields
  unchanged, and to append `end_of_track`).  The running position is an exact rational; Python
  accumulates IEEE doubles, which can differ only at exact `.5` ties (DESIGN §4 C13).
-/
import SCoda.Model.Wrapper
namespace SCoda

/-- an abstract MIDI event: `Msg` whose `time` is the delta time and whose `ty` is
    `.sequenceControl` for every mido message the parser does not know (type `None`);
    `ch = pyNone` when the mido message has no channel (meta messages). -/
abbrev MidiEv := Msg

/-- `to_mido_track`: emitted events with their delta times -/
def toMidoGo (buf : Int) : List Msg → List MidiEv
  | [] => []
  | m :: ms =>
    let buf := if m.time != pyNone then buf + m.time else buf
    match m.ty with
    | .noteOn => { m with time := buf, ch := 0, vel := if m.vel == pyNone then 127 else m.vel } :: toMidoGo 0 ms
    | .noteOff => { m with time := buf, ch := 0, vel := 0 } :: toMidoGo 0 ms
    | .timeSignature => { m with time := buf, ch := pyNone } :: toMidoGo 0 ms
    | .keySignature => { m with time := buf, ch := pyNone } :: toMidoGo 0 ms
    | .controlChange => { m with time := buf, ch := 0 } :: toMidoGo 0 ms
    | _ => toMidoGo buf ms

/-- `sequence.to_midi_track().to_mido_track()` on a relative view -/
def toMido (r : List Msg) : List MidiEv := toMidoGo 0 r

/-- Python's `round` (half to even) on an exact rational -/
def roundHalfEven (q : Rat) : Int :=
  let f := q.floor
  let d := q - (f : Rat)
  if d < (1 : Rat) / 2 then f
  else if d > (1 : Rat) / 2 then f + 1
  else if f % 2 == 0 then f else f + 1

structure ConvSt where
  seqs : List (List Seq)
  metaSeq : Seq := Seq.new
  defCh : Option Int := Option.none

def firstGroupOf (groups : List (List Nat)) (i : Nat) : Option (Nat × Nat) :=
  match groups.zipIdx.find? (fun g => g.1.contains i) with
  | some (g, gi) => some (gi, g.idxOf i)
  | Option.none => Option.none

/-- which internal message (if any) a parsed MIDI event becomes, and whether it goes to the
    meta sequence (`true`) or to the current sequence (`false`) -/
def convEvent (inGroup : Bool) (m : MidiEv) (rt : Int) : Option (Bool × Msg) :=
  let ch : Int := if m.ch == pyNone then 0 else m.ch
  match m.ty with
  | .noteOn => if inGroup then some (false, Msg.mkOn ch m.note m.vel rt) else Option.none
  | .noteOff => if inGroup then some (false, Msg.mkOff ch m.note rt) else Option.none
  | .timeSignature => some (true, Msg.mkTimeSig ch m.num m.den rt)
  | .keySignature => some (true, { ty := .keySignature, ch := ch, key := m.key, time := rt })
  | .controlChange => some (true, { ty := .controlChange, ch := ch, vel := m.vel, ctl := m.ctl, time := rt })
  | .programChange => some (false, { ty := .programChange, ch := ch, prog := m.prog, time := rt })
  | _ => Option.none

def ConvSt.addMeta (s : ConvSt) (m : Msg) : Except Err ConvSt := do
  let q ← s.metaSeq.addAbsMsg m
  .ok { s with metaSeq := q }

def ConvSt.addCur (s : ConvSt) (loc : Option (Nat × Nat)) (m : Msg) : Except Err ConvSt :=
  match loc with
  | some (gi, pos) =>
    match (s.seqs[gi]? >>= (·[pos]?)) with
    | some q => do
      let q' ← q.addAbsMsg m
      .ok { s with seqs := modifyAt (fun g => modifyAt (fun _ => q') pos g) gi s.seqs }
    | Option.none => .error .indexError
  | Option.none => s.addMeta m

def convMsg (ppqn filePpq : Int) (loc : Option (Nat × Nat)) (acc : ConvSt × Int) (m : MidiEv) :
    Except Err (ConvSt × Int) :=
  let s := acc.1
  let s := { s with defCh := match s.defCh with
                              | some c => some c
                              | Option.none => if m.ch != pyNone then some m.ch else Option.none }
  let ticks := acc.2 + m.time
  let rt := roundHalfEven ((ticks : Rat) * (ppqn : Rat) / (filePpq : Rat))
  match convEvent loc.isSome m rt with
  | some (true, msg) => match s.addMeta msg with | .ok s => .ok (s, ticks) | .error e => .error e
  | some (false, msg) => match s.addCur loc msg with | .ok s => .ok (s, ticks) | .error e => .error e
  | Option.none => .ok (s, ticks)

def convTrack (ppqn filePpq : Int) (groups : List (List Nat)) (metaIdx : List Nat)
    (s : ConvSt) (it : List MidiEv × Nat) : Except Err ConvSt :=
  let loc := firstGroupOf groups it.2
  if loc.isNone && !metaIdx.contains it.2 then .ok s else
  match foldlM' (convMsg ppqn filePpq loc) (s, 0) it.1 with
  | .ok r => .ok r.1
  | .error e => .error e

/-- `MidiFile.convert(track_indices, meta_track_indices, meta_track_index)` -/
def convert (ppqn filePpq : Int) (tracks : List (List MidiEv)) (groups : List (List Nat))
    (metaIdx : List Nat) (target : Int) : Except Err (List Seq) := do
  let s0 : ConvSt := { seqs := groups.map (fun g => g.map (fun _ => Seq.new)) }
  let s ← foldlM' (convTrack ppqn filePpq groups metaIdx) s0 tracks.zipIdx
  let merged ← foldlM' (fun (acc : List Seq) (g : List Seq) => do
      let g ← foldlM' (fun (a : List Seq) q => do let q' ← q.normaliseSeq; .ok (a ++ [q'])) [] g
      match g with
      | [] => .error .indexError
      | t :: rest =>
        let restAbs ← foldlM' (fun (a : List (List Msg)) q => do let (_, x) ← q.readAbs; .ok (a ++ [x])) [] rest
        let t' ← t.mergeSeq restAbs
        .ok (acc ++ [t'])) [] s.seqs
  if target < 0 || target >= merged.length then throw .valueError
  let ti := target.toNat
  match merged[ti]? with
  | Option.none => .error .valueError
  | some mt =>
    let (_, ma) ← s.metaSeq.readAbs
    let mt ← mt.mergeSeq [ma]
    let (mt, a) ← mt.readAbs
    let hasTs0 := (timesOfType .timeSignature a).any (fun m => m.time == 0)
    let mt ← if hasTs0 then .ok mt else mt.addAbsMsg (Msg.mkTimeSig (s.defCh.getD 0) 4 4 0)
    .ok (modifyAt (fun _ => mt) ti merged)

end SCoda
