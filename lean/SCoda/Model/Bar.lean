/-
  Model of `Bar.__init__` (bar.py:14-53, after the repair of D9), `Bar.copy`, `Bar.transpose`,
  `Bar.to_sequence`, and `Sequence.sequences_split_bars` (sequence.py:447-538, after D13).
  A `Sequence` argument is represented by its relative message list (the constructor reads
  `sequence.rel` through `normalise()` first).
-/
import SCoda.Model.Split
import SCoda.Model.Quantise
namespace SCoda

structure Bar where
  seq : List Msg       -- relative view of `bar.sequence`
  num : Int
  den : Int
  key : Int            -- key index, `pyNone` for None
  deriving DecidableEq, Repr

/-- `int(numerator * PPQN / (denominator / 4))` for positive arguments; see `PyNum.barCapacity`
    for the int/float-typed version of the same expression. -/
def barCapacity (ppqn n d : Int) : Int := (n * ppqn * 4) / d

/-- `Bar(sequence, numerator, denominator, key)` -/
def mkBar (ppqn : Int) (rel : List Msg) (n d key : Int) : Except Err Bar := do
  let r := normalise rel
  let cap := barCapacity ppqn n d
  let dur := totalWait r
  if dur > cap then throw .barError
  let r := if dur < cap then pad cap r else r
  let tss := r.filter (·.ty == .timeSignature)
  if tss.length > 1 then throw .barError
  if !(tss.all (fun m => m.num == n && m.den == d)) then throw .barError
  let r := r.filter (·.ty != .timeSignature)
  .ok { seq := Msg.mkTimeSig 0 n d pyNone :: r, num := n, den := d, key := key }

/-- `Bar.copy()` -/
def Bar.copy (ppqn : Int) (b : Bar) : Except Err Bar := mkBar ppqn b.seq b.num b.den b.key

/-- `Bar.to_sequence(bars)` (relative view of the result) -/
def barsToSeq (bars : List Bar) : List Msg := (bars.map (·.seq)).flatten

/-- `get_message_times_of_type([ty])` -/
def timesOfType (ty : MType) (a : List Msg) : List Msg := a.filter (·.ty == ty)

structure SBSt where
  now    : Int := 0
  num    : Int := 4
  den    : Int := 4
  key    : Int := pyNone
  tsQ    : List Msg
  ksQ    : List Msg
  tracks : List (List Msg)
  bars   : List (List Bar)     -- per track, reversed

/-- the piece that becomes the bar: optional shorten-only note-length quantisation through
    the absolute view -/
def requantPiece (values : List Int) (ppqn : Int) (requant : Bool) (piece : List Msg) :
    Except Err (List Msg) :=
  if requant then do
    let a ← quantiseNoteLengths values ppqn true (toAbs piece)
    .ok (toRel a)
  else .ok piece

def splitBarsGo (ppqn : Int) (values : List Int) (requant : Bool) :
    Nat → SBSt → Except Err (List (List Bar))
  | 0, _ => .error .fuel
  | fuel + 1, s => do
    -- obtain new time / key signature (at most one of each per bar)
    let (num, den, tsQ) := match s.tsQ with
      | m :: rest => if m.time <= s.now then (m.num, m.den, rest) else (s.num, s.den, s.tsQ)
      | [] => (s.num, s.den, s.tsQ)
    let (key, ksQ) := match s.ksQ with
      | m :: rest => if m.time <= s.now then (m.key, rest) else (s.key, s.ksQ)
      | [] => (s.key, s.ksQ)
    let len := barCapacity ppqn num den
    let now := s.now + len
    let step ← foldlM' (fun (acc : Bool × List (List Msg) × List (List Bar)) (tb : List Msg × List Bar) => do
        let pieces ← split tb.1 [len]
        let (sync, rest, first) := match pieces with
          | p :: q :: _ => (false, q, p)
          | [p] => (acc.1, [], p)
          | [] => (acc.1, [], [])
        let piece ← requantPiece values ppqn requant first
        let bar ← mkBar ppqn piece num den key
        .ok (sync, acc.2.1 ++ [rest], acc.2.2 ++ [bar :: tb.2]))
      (true, [], []) (s.tracks.zip s.bars)
    let s' : SBSt := { now := now, num := num, den := den, key := key, tsQ := tsQ, ksQ := ksQ,
                       tracks := step.2.1, bars := step.2.2 }
    if step.1 then .ok (s'.bars.map List.reverse) else splitBarsGo ppqn values requant fuel s'

/-- `Sequence.sequences_split_bars(sequences, meta_track_index, quantise_note_lengths)`;
    every input sequence is given by its relative view. -/
def splitBars (ppqn : Int) (values : List Int) (tracks : List (List Msg)) (metaIdx : Nat)
    (requant : Bool) : Except Err (List (List Bar)) :=
  match tracks[metaIdx]? with
  | Option.none => .error .indexError
  | some metaTrack =>
    let a := toAbs metaTrack
    let tsQ := timesOfType .timeSignature a
    let tsQ := if tsQ.length == 0 then [Msg.mkTimeSig 0 4 4 0] else tsQ
    let fuel := ((tracks.map (fun t => (totalWait t).toNat)).foldl max 0) + tracks.length + 2
    splitBarsGo ppqn values requant fuel
      { tsQ := tsQ, ksQ := timesOfType .keySignature a, tracks := tracks, bars := tracks.map (fun _ => []) }

end SCoda
