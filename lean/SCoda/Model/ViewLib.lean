/-
  Link table between the `Sequence` wrapper translation (`Gen/WrapFns.lean`, regenerated from
  sequence.py on every run by tools/py2lean_wrap.py) and the view-level models.

  Every definition below is *one assumption*: "the named method of `AbsoluteSequence` /
  `RelativeSequence`, called on a view whose message list is the first argument, leaves the view's
  list as the first component and returns the second".  The right-hand sides are the view-level
  models of Model/*.lean, each tied to the code by the correspondence check.  All links share the
  shape  `Env → List Msg → args… → Except Err (List Msg × R)`  so the translator needs no per-method
  knowledge beyond the result type.
-/
import SCoda.Model.Wrapper
namespace SCoda.View

/-- `RelativeSequence.to_absolute_sequence` -/
def rel_to_absolute_sequence (r : List Msg) : List Msg := toAbs r
/-- `AbsoluteSequence.to_relative_sequence` -/
def abs_to_relative_sequence (a : List Msg) : List Msg := toRel a

/-- `AbsoluteSequence.add_message` (binary insort) -/
def abs_add_message (_ : Env) (a : List Msg) (m : Msg) : Except Err (List Msg × Unit) := .ok (insort a m, ())
/-- `RelativeSequence.add_message(msg, index=None)` (`append` / `list.insert`) -/
def rel_add_message (_ : Env) (r : List Msg) (m : Msg) (idx : Option Nat) : Except Err (List Msg × Unit) :=
  .ok ((match idx with | some i => Seq.insertAt m i r | Option.none => r ++ [m]), ())
/-- `RelativeSequence.concatenate(sequences)` -/
def rel_concatenate (_ : Env) (r : List Msg) (others : List (List Msg)) : Except Err (List Msg × Unit) :=
  .ok (concatenate r others, ())
/-- `AbsoluteSequence.cutoff(maximum_length, reduced_length)` -/
def abs_cutoff (_ : Env) (a : List Msg) (m r : Int) : Except Err (List Msg × Unit) := .ok (cutoff m r a, ())
/-- `AbsoluteSequence.merge(sequences)` -/
def abs_merge (_ : Env) (a : List Msg) (others : List (List Msg)) : Except Err (List Msg × Unit) :=
  .ok (mergeAbs a others, ())
/-- `RelativeSequence.normalise_relative()` -/
def rel_normalise_relative (_ : Env) (r : List Msg) : Except Err (List Msg × Unit) := .ok (normalise r, ())
/-- `RelativeSequence.pad(padding_length)` -/
def rel_pad (_ : Env) (r : List Msg) (n : Int) : Except Err (List Msg × Unit) := .ok (pad n r, ())
/-- `RelativeSequence.set_channel(channel)` -/
def rel_set_channel (_ : Env) (r : List Msg) (c : Int) : Except Err (List Msg × Unit) := .ok (setChannel c r, ())
/-- `RelativeSequence.split(capacities)`: the receiver's list is left as it was -/
def rel_split (_ : Env) (r : List Msg) (caps : List Int) : Except Err (List Msg × List (List Msg)) := do
  let ps ← split r caps
  .ok (r, ps)
/-- `RelativeSequence.scale(factor, meta_sequence)`, integer factor ≥ 1 (the branch in which
    `meta_sequence` is not read) -/
def rel_scale (_ : Env) (r : List Msg) (k : Int) (_meta : Option Seq) : Except Err (List Msg × Unit) :=
  .ok (scaleRel k r, ())
/-- `RelativeSequence.transpose(transpose_by)` -/
def rel_transpose (e : Env) (r : List Msg) (by_ : Int) : Except Err (List Msg × Bool) :=
  .ok (transposeRel e.noteLo e.noteHi (fun k => e.tk k by_) by_ r)
/-- `AbsoluteSequence.quantise(step_sizes=None)` (repaired for D41: `normalise_absolute()` first, `Model/QuantiseS.lean`) -/
def abs_quantise (e : Env) (a : List Msg) (steps : Option (List Int)) : Except Err (List Msg × Unit) := do
  let a' ← SCoda.quantiseS (steps.getD e.defSteps) a
  .ok (a', ())
/-- `AbsoluteSequence.quantise_note_lengths(note_values=None, standard_length=PPQN, do_not_extend=False)` -/
def abs_quantise_note_lengths (e : Env) (a : List Msg) (values : Option (List Int)) (stdLen : Int) (dne : Bool) :
    Except Err (List Msg × Unit) := do
  let a' ← SCoda.quantiseNoteLengths (values.getD e.defValues) stdLen dne a
  .ok (a', ())
/-- `AbsoluteSequence.get_sequence_duration()` (`self._messages[-1].time`) -/
def abs_get_sequence_duration (_ : Env) (a : List Msg) : Except Err (List Msg × Int) := do
  let d ← absDuration a
  .ok (a, d)
/-- `AbsoluteSequence.is_channel_consistent()`: every channel equals the first one (= the translation, `ViewTie.isChannelConsistent_eq`) -/
def abs_is_channel_consistent (_ : Env) (a : List Msg) : Except Err (List Msg × Bool) :=
  .ok (a, a.all (fun m => m.ch == (a.headD default).ch))
/-- `AbsoluteSequence.get_sequence_channel()`: the first channel if all agree, `SequenceException` otherwise, `IndexError` on the empty
    list (= the translation, `ViewTie.getSequenceChannel_eq`) -/
def abs_get_sequence_channel (_ : Env) (a : List Msg) : Except Err (List Msg × Int) :=
  if a.all (fun m => m.ch == (a.headD default).ch) then
    (match a.head? with | some m => .ok (a, m.ch) | none => .error .indexError)
  else .error .sequenceError
/-- `RelativeSequence.is_empty()`: no note-on -/
def rel_is_empty (_ : Env) (r : List Msg) : Except Err (List Msg × Bool) := .ok (r, !(r.any (·.ty == .noteOn)))

/-- `AbsoluteSequence.equals(other, ignore_channel, ignore_time_signature, ignore_key_signature, ignore_velocity)`: the pairing helper sorts
    the receiver's list in place (and the argument's; the argument's change is not tracked here) -/
def abs_equals (e : Env) (a : List Msg) (b : List Msg) (ic its iks iv : Bool) : Except Err (List Msg × Bool) :=
  .ok (sortAbs a, equalsAbs e.ppqn { ignoreCh := ic, ignoreTs := its, ignoreKs := iks, ignoreVel := iv } a b)

/-- `AbsoluteSequence.__eq__(o)`: `return self.equals(o)` — `equals` with every ignore flag at its default `False` (the body of this dunder
    method and the defaults of `equals` are pinned: tools/conventions.py, `WrapTie.defaults_pinned`) -/
def abs___eq__ (e : Env) (a : List Msg) (b : List Msg) : Except Err (List Msg × Bool) := abs_equals e a b false false false false

/-- `Sequence(absolute_sequence, relative_sequence)` (`Sequence.__init__`, sequence.py:35-59): which of
    the two views is given decides the flags -/
def seq_init (a r : Option (List Msg)) : Seq :=
  match a, r with
  | Option.none, Option.none => Seq.new
  | some a, Option.none => Seq.ofAbs a
  | Option.none, some r => Seq.ofRel r
  | some a, some r => { abs := a, rel := r, absStale := false, relStale := false }

end SCoda.View
