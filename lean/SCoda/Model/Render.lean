/-
  Token text: `render` produces the exact Python strings (prefixes from the generated
  `TokenisationPrefixes`, `:02` / `:03` zero padding), `parseTok` reads a vocabulary-shaped
  string back (`_split_token` + `int(...)`).  Compared with Python, not reasoned about.
-/
import SCoda.Model.Token
import SCoda.Gen.Tables
namespace SCoda

def prefixOf (name : String) : String :=
  match Gen.tokenPrefixes.find? (·.1 == name) with
  | some p => p.2
  | Option.none => "?" ++ name

/-- Python `f"{v:0w}"` for an int -/
def zpad (w : Nat) (v : Int) : String :=
  let s := toString v.natAbs
  let body := String.ofList (List.replicate (w - s.length - (if v < 0 then 1 else 0)) '0') ++ s
  if v < 0 then "-" ++ body else body

def render : Tok → String
  | .pad => prefixOf "PAD" | .sta => prefixOf "START" | .sto => prefixOf "STOP" | .bar => prefixOf "BAR"
  | .rest v => prefixOf "REST" ++ "_" ++ zpad 2 v
  | .trk t => prefixOf "TRACK" ++ "_" ++ zpad 2 t
  | .val v => prefixOf "VALUE" ++ "_" ++ zpad 2 v
  | .vel v => prefixOf "VELOCITY" ++ "_" ++ zpad 3 v
  | .note t p v w =>
    let parts := (match t with | some t => [prefixOf "TRACK" ++ "_" ++ zpad 2 t] | Option.none => [])
      ++ [prefixOf "PITCH" ++ "_" ++ zpad 3 p]
      ++ (match v with | some v => [prefixOf "VALUE" ++ "_" ++ zpad 2 v] | Option.none => [])
      ++ (match w with | some w => [prefixOf "VELOCITY" ++ "_" ++ zpad 3 w] | Option.none => [])
    "-".intercalate parts
  | .tsig n d => prefixOf "TIME_SIGNATURE" ++ "_" ++ zpad 2 n ++ "_" ++ zpad 2 d

/-- Python `int(s)` for plain decimal digit strings (optional sign) -/
def pyInt? (s : String) : Option Int :=
  if s.isEmpty then Option.none else s.toInt?

inductive ParseErr | invalidToken | valueError
  deriving DecidableEq, Repr

def parseTok (s : String) : Except ParseErr Tok :=
  let parts := (s.splitOn "-").map (fun p => p.splitOn "_")
  let num (x : String) : Except ParseErr Int :=
    match pyInt? x with | some v => .ok v | Option.none => .error .valueError
  match parts with
  | [[p]] =>
    if p == prefixOf "PAD" then .ok .pad else if p == prefixOf "START" then .ok .sta
    else if p == prefixOf "STOP" then .ok .sto else if p == prefixOf "BAR" then .ok .bar
    else .error .invalidToken
  | [[p, a]] =>
    if p == prefixOf "REST" then do let v ← num a; .ok (.rest v)
    else if p == prefixOf "TRACK" then do let v ← num a; .ok (.trk v)
    else if p == prefixOf "VALUE" then do let v ← num a; .ok (.val v)
    else if p == prefixOf "VELOCITY" then do let v ← num a; .ok (.vel v)
    else if p == prefixOf "PITCH" then do let v ← num a; .ok (.note Option.none v Option.none Option.none)
    else .error .invalidToken
  | [[p, a, b]] =>
    if p == prefixOf "TIME_SIGNATURE" then do let x ← num a; let y ← num b; .ok (.tsig x y)
    else .error .invalidToken
  | multi =>
    -- a fused note token: each part `[prefix, number]`, exactly one pitch, at most one of the others
    multi.foldl (fun (acc : Except ParseErr Tok) part => do
      let t ← acc
      match t, part with
      | .note tr pi va ve, [p, a] => do
        let v ← num a
        if p == prefixOf "TRACK" && tr.isNone then .ok (.note (some v) pi va ve)
        else if p == prefixOf "PITCH" && pi == -1 then .ok (.note tr v va ve)
        else if p == prefixOf "VALUE" && va.isNone then .ok (.note tr pi (some v) ve)
        else if p == prefixOf "VELOCITY" && ve.isNone then .ok (.note tr pi va (some v))
        else .error .invalidToken
      | _, _ => .error .invalidToken) (.ok (.note Option.none (-1) Option.none Option.none))
    >>= fun t => match t with
      | .note _ (-1) _ _ => .error .invalidToken
      | t => .ok t

end SCoda
