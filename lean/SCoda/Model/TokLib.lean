/-
  Support library of the GENERATED translation of `MultiTrackLargeVocabularyNotelikeTokeniser`
  (Gen/TokFns.lean, written by tools/py2lean_tok.py).  Hand-written, core Lean only, everything structural so
  that `#eval` / `decide` compute.  Three parts:

  1. `PyErr`: the Python exceptions a translated function can raise.
  2. Python built-ins with their Python semantics (negative indices, IndexError, dict insertion order,
     `sorted(key=…)` stable with all keys computed first, lazy `next(… for … if …)`, `itertools.product`,
     `int(str)`, `str.split`, `s[:-k]`, true division as exact rationals).
  3. LINKS: the callees that are NOT translated but mapped to an existing hand model (assumptions of the tie,
     listed in the header of Gen/TokFns.lean).  A `Sequence` object is `LSeq`: the view it was last written
     through (the wrapper keeps exactly one fresh view; Model/Wrapper.lean).
       Sequence()                          ↦ LSeq.new                (both views empty)
       s.set_channel(c)                    ↦ LSeq.setChannel         (Model/Normalise.lean `setChannel`, relative view)
       s.merge(others)                     ↦ LSeq.merge              (`mergeAbs` on the absolute views, then `normalise`)
       s.get_interleaved_message_pairings  ↦ LSeq.interleaved        (Model/Pairing.lean `interleaved`, std. length PPQN, impute)
       s.add_absolute_message(m)           ↦ LSeq.addAbs             (Model/Sort.lean `insort`; Props/ViewTie.binaryInsort_eq)
       bin_velocity(v, bins)               ↦ binIndex                (np.digitize(right=True))
       get_velocity_bins(velocity_bins=n)  ↦ Gen.velocityBinsTable   (evaluated by tools/gen_lean.py, n = 1..64)
       CircleOfFifths.get_position         ↦ Gen.getPosition         (itself generated from music_theory.py)
       list.sort() on ints                 ↦ pySortInt               (stable insertion sort)
-/
import SCoda.Model.Render
import SCoda.Model.Extract
import SCoda.Gen.Settings
import SCoda.Gen.TheoryFns
namespace SCoda.TokLib
open SCoda

/-! ### 1. exceptions -/

inductive PyErr
  | tokenisationException
  | indexError
  | keyError
  | valueError
  | zeroDivisionError
  | notImplementedError
  | stopIteration
  | calleeRaised           -- a linked callee raised
  | fuel                   -- a `while` loop did not finish within its stated fuel
  | outOfSubset            -- outside the domain of a link table (velocity_bins outside 1..64)
  deriving DecidableEq, Repr, Inhabited

def PyErr.name : PyErr → String
  | .tokenisationException => "TokenisationException" | .indexError => "IndexError" | .keyError => "KeyError"
  | .valueError => "ValueError" | .zeroDivisionError => "ZeroDivisionError"
  | .notImplementedError => "NotImplementedError" | .stopIteration => "StopIteration"
  | .calleeRaised => "CalleeRaised" | .fuel => "FUEL" | .outOfSubset => "OutOfSubset"

/-! ### 2. Python built-ins -/

/-- `if c: raise E` -/
def raiseIf (c : Bool) (e : PyErr) : Except PyErr Unit := if c then throw e else pure ()

/-- `l[i]` with Python's negative indices -/
def pyItem {α} (l : List α) (i : Int) : Except PyErr α :=
  let j : Int := if i < 0 then i + l.length else i
  if j < 0 then throw .indexError else
  match l[j.toNat]? with
  | some x => pure x
  | none => throw .indexError

def modifyNth {α} (f : α → α) : Nat → List α → List α
  | _, [] => []
  | 0, x :: xs => f x :: xs
  | n + 1, x :: xs => x :: modifyNth f n xs

/-- `l[i].method(…)` for a method that changes the object `l[i]`: the element is replaced by its new state -/
def pyModifyAt {α} (l : List α) (i : Int) (f : α → α) : Except PyErr (List α) :=
  let j : Int := if i < 0 then i + l.length else i
  if j < 0 then throw .indexError else
  if j.toNat < l.length then pure (modifyNth f j.toNat l) else throw .indexError

/-- `range(lo, hi)` -/
def pyRange (lo hi : Int) : List Int := (List.range (hi - lo).toNat).map (fun (i : Nat) => lo + (i : Int))

/-- `enumerate(l)` -/
def pyEnumerateFrom {α} : Nat → List α → List (Int × α)
  | _, [] => []
  | n, x :: xs => ((n : Int), x) :: pyEnumerateFrom (n + 1) xs
def pyEnumerate {α} (l : List α) : List (Int × α) := pyEnumerateFrom 0 l

/-- `itertools.product(*ls)`: the last list varies fastest -/
def pyProduct {α} : List (List α) → List (List α)
  | [] => [[]]
  | l :: ls => l.flatMap (fun x => (pyProduct ls).map (fun r => x :: r))

/-- `l.pop(i)` for `i ≥ 0` or negative: (popped element, remaining list) -/
def pyPop {α} (l : List α) (i : Int) : Except PyErr (α × List α) :=
  let j : Int := if i < 0 then i + l.length else i
  if j < 0 then throw .indexError else
  match l[j.toNat]? with
  | some x => pure (x, l.eraseIdx j.toNat)
  | none => throw .indexError

/-- `l.index(x)` (value equality) -/
def pyIndexOf {α} [BEq α] (l : List α) (x : α) : Except PyErr Int :=
  match l.idxOf? x with
  | some i => pure (i : Int)
  | none => throw .valueError

/-- stable insertion of `(key, x)` behind every entry whose key is `≤` -/
def insertByKey {α} (k : Int) (x : α) : List (Int × α) → List (Int × α)
  | [] => [(k, x)]
  | (k', y) :: rest => if k < k' then (k, x) :: (k', y) :: rest else (k', y) :: insertByKey k x rest

def sortByKeys {α} (l : List (Int × α)) : List (Int × α) :=
  l.foldl (fun acc kx => insertByKey kx.1 kx.2 acc) []

def mapME {α β ε} (f : α → Except ε β) : List α → Except ε (List β)
  | [] => .ok []
  | x :: xs => match f x with
    | .error e => .error e
    | .ok y => match mapME f xs with
      | .error e => .error e
      | .ok ys => .ok (y :: ys)

/-- `sorted(l, key=f)`: every key is computed first (in list order; the first exception wins), then a stable sort -/
def pySortedBy {α} (l : List α) (key : α → Except PyErr Int) : Except PyErr (List α) :=
  match mapME (fun x => match key x with | .ok k => Except.ok (k, x) | .error e => .error e) l with
  | .ok kxs => .ok ((sortByKeys kxs).map (·.2))
  | .error e => .error e

def insertInt (x : Int) : List Int → List Int
  | [] => [x]
  | y :: rest => if x < y then x :: y :: rest else y :: insertInt x rest

/-- `l.sort()` on a list of ints -/
def pySortInt (l : List Int) : List Int := l.foldl (fun acc x => insertInt x acc) []

/-- `next(x for x in l if p(x))`: the first hit; `p` is only evaluated up to the hit (generators are lazy) -/
def pyNextM {α} (p : α → Except PyErr Bool) : List α → Except PyErr α
  | [] => .error .stopIteration
  | x :: xs => match p x with
    | .error e => .error e
    | .ok true => .ok x
    | .ok false => pyNextM p xs

/-- `s[:-k]` -/
def strDropRight (s : String) (k : Nat) : String := String.ofList (s.toList.take (s.toList.length - k))

/-- `s.split(sep)` for a non-empty separator -/
def pySplit (s sep : String) : List String := s.splitOn sep

/-- `str.strip()` on the character list (space, tab, CR, LF) -/
def stripChars (cs : List Char) : List Char :=
  ((cs.dropWhile Char.isWhitespace).reverse.dropWhile Char.isWhitespace).reverse

/-- an optional leading `+` in front of a digit -/
def dropPlus (cs : List Char) : List Char :=
  match cs with
  | '+' :: d :: r => if d.isDigit then d :: r else cs
  | _ => cs

/-- `int(s)` for a string: surrounding whitespace is ignored, an optional sign `+` / `-`, then decimal digits
    (`pyInt?` of Model/Render.lean reads sign `-` and digits; ASCII only) -/
def pyIntOfStr (s : String) : Except PyErr Int :=
  match pyInt? (String.ofList (dropPlus (stripChars s.toList))) with
  | some v => pure v
  | none => throw .valueError

/-- `a / b` (true division of ints): exact rational instead of an IEEE double -/
def pyTrueDiv (a b : Int) : Except PyErr Rat :=
  if b == 0 then throw .zeroDivisionError else pure ((a : Rat) / (b : Rat))

/-- `int(x)` for a float: truncation toward zero -/
def ratTrunc (q : Rat) : Int := if 0 ≤ q then q.floor else -((-q).floor)

/-- `x.is_integer()` -/
def ratIsInteger (q : Rat) : Bool := q.den == 1

/-- `a % b` with the sign of the divisor -/
def pyMod (a b : Int) : Except PyErr Int := if b == 0 then throw .zeroDivisionError else pure (Int.fmod a b)

/-! dicts: insertion-ordered association lists (`SCoda.Assoc`) -/

def pyDictSet {κ ν} [DecidableEq κ] (d : List (κ × ν)) (k : κ) (v : ν) : List (κ × ν) := Assoc.set d k v
def pyDictGetD {κ ν} [DecidableEq κ] (d : List (κ × ν)) (k : κ) (dflt : ν) : ν := (Assoc.get? d k).getD dflt
def pyDictGet {κ ν} [DecidableEq κ] (d : List (κ × ν)) (k : κ) : Except PyErr ν :=
  match Assoc.get? d k with
  | some v => pure v
  | none => throw .keyError
/-- `{k: v for …}` / `dict(pairs)`: later pairs overwrite earlier ones, the position of the first insertion is kept -/
def pyDictOfList {κ ν} [DecidableEq κ] (l : List (κ × ν)) : List (κ × ν) :=
  l.foldl (fun d kv => Assoc.set d kv.1 kv.2) []

/-! ### 3. links -/

/-- a `Sequence` object: the view it was last written through -/
inductive LSeq
  | rel (r : List Msg)
  | abs (a : List Msg)
  deriving DecidableEq, Repr, Inhabited

namespace LSeq
def new : LSeq := .abs []
def absOf : LSeq → List Msg
  | .abs a => a
  | .rel r => toAbs r
def relOf : LSeq → List Msg
  | .rel r => r
  | .abs a => toRel a
def setChannel (s : LSeq) (c : Int) : LSeq := .rel (SCoda.setChannel c s.relOf)
def merge (s : LSeq) (others : List LSeq) : LSeq :=
  .rel (normalise (toRel (mergeAbs s.absOf (others.map absOf))))
def addAbs (s : LSeq) (m : Msg) : LSeq := .abs (insort s.absOf m)
def interleaved (s : LSeq) (types : List MType) : List (Int × List Msg) :=
  SCoda.interleaved types Gen.ppqn true s.absOf
end LSeq

/-- `get_velocity_bins(velocity_bins=n)` -/
def linkVelocityBins (n : Int) : Except PyErr (List Int) :=
  if n < 0 then throw .outOfSubset else
  match Gen.velocityBinsTable.find? (·.1 == n.toNat) with
  | some e => pure e.2
  | none => throw .outOfSubset

/-- `CircleOfFifths.get_position(p)` -/
def linkCof (p : Int) : Except PyErr Int :=
  match Gen.getPosition p with
  | some v => pure v
  | none => throw .calleeRaised

end SCoda.TokLib
