/-
  A two-point model of Python's numeric tower for the expressions that can put a float into a
  tick (DESIGN §4 C11): a value is an `int` or a `float` (modelled by an exact rational — the
  magnitudes involved are far below 2^53, where the float results of these expressions are exact).
  The *type* of the result is part of the model.
-/
namespace SCoda

inductive PyNum
  | int (i : Int)
  | float (q : Rat)
  deriving DecidableEq, Repr

namespace PyNum

def toRat : PyNum → Rat
  | int i => (i : Rat)
  | float q => q

def isInt : PyNum → Bool
  | int _ => true
  | float _ => false

/-- `a * b`: int only if both are int -/
def mul : PyNum → PyNum → PyNum
  | int a, int b => int (a * b)
  | a, b => float (a.toRat * b.toRat)

/-- `a / b` (true division): always a float -/
def truediv (a b : PyNum) : PyNum := float (a.toRat / b.toRat)

/-- `int(x)`: truncation toward zero, always an int -/
def pyint : PyNum → PyNum
  | int i => int i
  | float q => int (if 0 ≤ q then q.floor else -((-q).floor))

/-- `round(x)` with one argument: always an int (half to even) -/
def pyround : PyNum → PyNum
  | int i => int i
  | float q =>
    let f := q.floor
    let d := q - (f : Rat)
    int (if d < (1 : Rat) / 2 then f else if d > (1 : Rat) / 2 then f + 1 else if f % 2 == 0 then f else f + 1)

end PyNum

/-- `int(numerator * PPQN / (denominator / 4))` — the capacity expression of `Bar.__init__` -/
def barCapacityPy (n ppqn d : Int) : PyNum :=
  PyNum.pyint (PyNum.truediv (PyNum.mul (.int n) (.int ppqn)) (PyNum.truediv (.int d) (.int 4)))

/-- `int(PPQN * (numerator / (denominator / 4)))` — the bar length of `sequences_split_bars` -/
def splitBarLenPy (n ppqn d : Int) : PyNum :=
  PyNum.pyint (PyNum.mul (.int ppqn) (PyNum.truediv (.int n) (PyNum.truediv (.int d) (.int 4))))

/-- `int(ppqn * 4 * numerator / denominator)` — the tokeniser's bar capacity -/
def tokCapacityPy (n ppqn d : Int) : PyNum :=
  PyNum.pyint (PyNum.truediv (PyNum.mul (PyNum.mul (.int ppqn) (.int 4)) (.int n)) (.int d))

end SCoda
