/-
  Model of `RelativeSequence.normalise_relative` (relative_sequence.py:91-165, after the
  repairs of D5/D6), `pad` (167-189), `set_channel`, `concatenate`, `transpose`, `scale` (k ≥ 1).
-/
import SCoda.Model.Conv
import SCoda.Model.Assoc
namespace SCoda

/-- State of the normalise loop.  Every input message gets its index (Python object
    identity); `out` holds the kept messages (reversed), tagged with the index of the input
    message they are (`none` for freshly built wait messages). -/
structure NormSt where
  idx    : Nat := 0
  opens  : Assoc (Int × Int) (List Nat) := []     -- (channel, pitch) ↦ stack of note-on indices
  wbuf   : Int := 0
  tsNum  : Int := pyNone
  tsDen  : Int := pyNone
  key    : Int := pyNone
  defCh  : Option Int := none
  out    : List (Option Nat × Msg) := []

def NormSt.emit (s : NormSt) (m : Msg) : NormSt :=
  let out := if s.wbuf > 0 then (none, Msg.mkWait m.ch s.wbuf) :: s.out else s.out
  { s with out := (some s.idx, m) :: out, wbuf := if s.wbuf > 0 then 0 else s.wbuf }

def normStep (s0 : NormSt) (m : Msg) : NormSt :=
  let s := { s0 with defCh := match s0.defCh with | some c => some c | none => some m.ch }
  let next (t : NormSt) : NormSt := { t with idx := s0.idx + 1 }
  match m.ty with
  | .wait => next { s with wbuf := s.wbuf + m.time }
  | .noteOn =>
    let stack := ((s.opens.get? m.nkey).getD []) ++ [s.idx]
    let s := { s with opens := s.opens.set m.nkey stack }
    if stack.length != 1 then next s else next (s.emit m)
  | .noteOff =>
    let stack := (s.opens.get? m.nkey).getD []
    if stack.length == 0 then next s else
    let stack := stack.dropLast
    let s := { s with opens := s.opens.set m.nkey stack }
    if stack.length != 0 then next s else next (s.emit m)
  | .timeSignature =>
    if m.num != s.tsNum || m.den != s.tsDen then
      next ({ s with tsNum := m.num, tsDen := m.den }.emit m)
    else next s
  | .keySignature =>
    if m.key != s.key then next ({ s with key := m.key }.emit m) else next s
  | _ => next (s.emit m)

def normalise (r : List Msg) : List Msg :=
  let s := r.foldl normStep {}
  let out := if s.wbuf > 0 then (none, Msg.mkWait (s.defCh.getD 0) s.wbuf) :: s.out else s.out
  let unclosed : List Nat := s.opens.flatMap (fun kv => kv.2)
  (out.reverse.filter (fun e => match e.1 with | some i => !unclosed.contains i | none => true)).map (·.2)

/-- `pad(padding_length)`; the measured length stops at the first wait that reaches the
    requested length (the `break`), the default channel is inferred from the messages seen. -/
def padGo (n : Int) (len : Int) (defCh : Option Int) : List Msg → Int × Option Int
  | [] => (len, defCh)
  | m :: ms =>
    let defCh := match defCh with | some c => some c | none => some m.ch
    if m.ty == .wait then
      let len := len + m.time
      if len >= n then (len, defCh) else padGo n len defCh ms
    else padGo n len defCh ms

def pad (n : Int) (r : List Msg) : List Msg :=
  let (len, defCh) := padGo n 0 none r
  if len < n then r ++ [Msg.mkWait (defCh.getD 0) (n - len)] else r

def setChannel (c : Int) (r : List Msg) : List Msg := r.map ({ · with ch := c })

/-- `concatenate`: the messages of the given relative sequences are appended -/
def concatenate (r : List Msg) (rs : List (List Msg)) : List Msg := r ++ rs.flatten

/-- the two `while` loops of `transpose`, as structural recursion on fuel -/
def wrapUp (lo : Int) : Nat → Int → Int × Bool
  | 0, p => (p, false)
  | f + 1, p => if p < lo then let (q, _) := wrapUp lo f (p + 12); (q, true) else (p, false)

def wrapDown (hi : Int) : Nat → Int → Int × Bool
  | 0, p => (p, false)
  | f + 1, p => if p > hi then let (q, _) := wrapDown hi f (p - 12); (q, true) else (p, false)

/-- pitch after `msg.note += by` and both loops; the flag says a loop body ran -/
def wrapPitch (lo hi : Int) (p : Int) : Int × Bool :=
  let (p1, f1) := wrapUp lo (Int.toNat (lo - p) / 12 + 2) p
  let (p2, f2) := wrapDown hi (Int.toNat (p1 - hi) / 12 + 2) p1
  (p2, f1 || f2)

/-- one iteration of the loop of `RelativeSequence.transpose`; `tk` is
    `Key.transpose_key(·, by)` on key indices -/
def transposeMsg (lo hi : Int) (tk : Int → Int) (by_ : Int) (m : Msg) : Msg × Bool :=
  if m.ty == .noteOn || m.ty == .noteOff then
    let pf := wrapPitch lo hi (m.note + by_)
    ({ m with note := pf.1 }, pf.2)
  else if m.ty == .keySignature then ({ m with key := tk m.key }, false)
  else (m, false)

def transposeRel (lo hi : Int) (tk : Int → Int) (by_ : Int) (r : List Msg) : List Msg × Bool :=
  (r.map (fun m => (transposeMsg lo hi tk by_ m).1), r.any (fun m => (transposeMsg lo hi tk by_ m).2))

/-- `scale(factor)` for an integer factor ≥ 1: every wait is multiplied -/
def scaleRel (k : Int) (r : List Msg) : List Msg :=
  if k == 1 then r else r.map (fun m => if m.ty == .wait then { m with time := m.time * k } else m)

end SCoda
