/-
  Model of `RelativeSequence.split` (relative_sequence.py:195-284, after the repair of D7).

  The nested loops are modelled as one fuel-driven step function over the state
  (remaining capacities, working memory, current piece, deferred queue, open notes, pieces).
-/
import SCoda.Model.Normalise
namespace SCoda

structure SplitSt where
  wm      : List Msg                       -- working_memory
  cur     : List Msg := []                 -- current_sequence (reversed)
  queue   : List Msg := []                 -- next_sequence_queue (reversed)
  opens   : Assoc (Int × Int) Msg := []    -- open_messages, insertion ordered
  pieces  : List (List Msg) := []          -- split_sequences (reversed)

/-- close every open note in the current piece and re-open it in the queue -/
def splitCloseOpen (opens : Assoc (Int × Int) Msg) (cur queue : List Msg) : List Msg × List Msg :=
  opens.foldl (fun (cq : List Msg × List Msg) kv =>
    ({ ty := .noteOff, ch := kv.2.ch, note := kv.2.note } :: cq.1,
     { ty := .noteOn, ch := kv.2.ch, note := kv.2.note, vel := kv.2.vel } :: cq.2)) (cur, queue)

/-- The `while remaining_capacity >= 0` loop for one capacity.  Returns the state after the
    loop ended (by `break`; `remaining_capacity` never becomes negative). -/
def splitInner : Nat → Int → SplitSt → Except Err SplitSt
  | 0, _, _ => .error .fuel
  | fuel + 1, rem, s =>
    match s.wm with
    | [] =>
      -- end of input reached prematurely
      if s.cur.length > 0 then .ok { s with pieces := s.cur.reverse :: s.pieces, cur := [], queue := [] }
      else .ok { s with queue := [] }
    | m :: wm =>
      let s := { s with wm := wm }
      match m.ty with
      | .noteOn =>
        if rem > 0 then splitInner fuel rem { s with cur := m :: s.cur, opens := s.opens.set m.nkey m }
        else splitInner fuel rem { s with queue := m :: s.queue }
      | .noteOff =>
        splitInner fuel rem { s with cur := m :: s.cur, opens := s.opens.erase m.nkey }
      | .wait =>
        if m.time <= rem then splitInner fuel (rem - m.time) { s with cur := m :: s.cur }
        else
          let carry := m.time - rem
          let cur := if rem > 0 then Msg.mkWait m.ch rem :: s.cur else s.cur
          let (cur, queue) := splitCloseOpen s.opens cur s.queue
          let queue := Msg.mkWait m.ch carry :: queue
          let pieces := if cur.length > 0 then cur.reverse :: s.pieces else s.pieces
          .ok { s with wm := queue.reverse ++ s.wm, cur := [], queue := [], pieces := pieces }
      | _ =>
        if rem > 0 then splitInner fuel rem { s with cur := m :: s.cur }
        else splitInner fuel rem { s with queue := m :: s.queue }

def splitOuter : List Int → SplitSt → Except Err SplitSt
  | [], s => .ok s
  | c :: cs, s => do
    let s' ← splitInner (s.wm.length + 2) c { s with queue := [] }
    splitOuter cs s'

/-- `RelativeSequence.split(capacities)` -/
def split (r : List Msg) (caps : List Int) : Except Err (List (List Msg)) := do
  let s ← splitOuter caps { wm := r }
  let cur := s.cur.reverse ++ s.wm
  let pieces := if cur.length > 0 then cur :: s.pieces else s.pieces
  .ok pieces.reverse

end SCoda
