/-
  Model of `MidiMessage.parse_mido_message` (scoda/midi/midi_message.py:25-56), of
  `MidiTrack.parse_mido_track` (midi_track.py:16-23) and of the key field the saver writes
  (`key=msg.key.value`, midi_track.py:52), over the generated tables `Gen.keyKeyMapping` /
  `Gen.keyValues` (music_theory.py:85-93, enumerations/key.py).

  NOT yet tied to the code by the correspondence check: needs a driver op (see the report):
    `parse_mido <type> <time> <channel|N> <note> <velocity> <numerator> <denominator> <key> <control> <value> <program>`
  answering the fields of the produced `MidiMessage` (or `KeyError`).
  `Model/Midi.lean` (`MidiEv`, `convEvent`, `convert`) starts from the *output* of this function.
-/
import SCoda.Model.Midi
import SCoda.Gen.Tables
namespace SCoda

/-- `mido_message.type`, as far as `parse_mido_message` distinguishes it; `other` stands for every
    other mido message (`set_tempo`, `end_of_track`, `track_name`, `pitchwheel`, …) -/
inductive MidoType
  | noteOn | noteOff | timeSignature | keySignature | controlChange | programChange | other
  deriving DecidableEq, Repr, Inhabited

/-- the attributes of a mido message the parser reads.  `channel = none` models
    `not hasattr(mido_message, "channel")` (every `MetaMessage`). -/
structure MidoMsg where
  type : MidoType
  time : Int := 0
  channel : Option Int := none
  note : Int := 0
  velocity : Int := 0
  numerator : Int := 4
  denominator : Int := 4
  key : String := "C"
  control : Int := 0
  value : Int := 0
  program : Int := 0
  deriving DecidableEq, Repr, Inhabited

/-- `MidiMessage.parse_mido_message(mido_message)`.  The result is a `MidiEv` (`Model/Midi.lean`):
    `ty = .sequenceControl` stands for `message_type = None`, `ch = pyNone` for `channel = None`. -/
def parseMido (m : MidoMsg) : Except Err MidiEv :=
  -- midi_message.py:28  msg.time = mido_message.time
  -- midi_message.py:30-31  if hasattr(mido_message, "channel"): msg.channel = mido_message.channel
  let ch : Int := match m.channel with | some c => c | none => pyNone
  -- :33  note_on with velocity > 0
  if m.type = .noteOn ∧ m.velocity > 0 then
    .ok { ty := .noteOn, ch := ch, time := m.time, note := m.note, vel := m.velocity }
  -- :37  (note_on with velocity == 0) or note_off
  else if (m.type = .noteOn ∧ m.velocity = 0) ∨ m.type = .noteOff then
    .ok { ty := .noteOff, ch := ch, time := m.time, note := m.note, vel := m.velocity }
  -- :41  time_signature
  else if m.type = .timeSignature then
    .ok { ty := .timeSignature, ch := ch, time := m.time, num := m.numerator, den := m.denominator }
  -- :45  key_signature: MusicMapping.KeyKeyMapping[mido_message.key]  (KeyError when absent)
  else if m.type = .keySignature then
    match Gen.keyKeyMapping.lookup m.key with
    | some k => .ok { ty := .keySignature, ch := ch, time := m.time, key := k }
    | none => .error .keyError
  -- :48  control_change: velocity = mido_message.value
  else if m.type = .controlChange then
    .ok { ty := .controlChange, ch := ch, time := m.time, ctl := m.control, vel := m.value }
  -- :52  program_change
  else if m.type = .programChange then
    .ok { ty := .programChange, ch := ch, time := m.time, prog := m.program }
  -- no branch taken: message_type stays None
  else .ok { ty := .sequenceControl, ch := ch, time := m.time }

/-- `MidiTrack.parse_mido_track`: every message of the track, in order -/
def parseTrack : List MidoMsg → Except Err (List MidiEv)
  | [] => .ok []
  | m :: ms =>
    match parseMido m with
    | .error e => .error e
    | .ok e =>
      match parseTrack ms with
      | .error e' => .error e'
      | .ok es => .ok (e :: es)

/-- `msg.key.value` for the key with index `k` (midi_track.py:52): the name the saver writes -/
def keyName (k : Int) : Option String := if 0 ≤ k then Gen.keyValues[k.toNat]? else none

/-- the mido message `to_mido_track` writes for a key signature with key index `k` at delta `t` -/
def savedKeyMsg (k t : Int) : Option MidoMsg :=
  (keyName k).map (fun nm => { type := .keySignature, time := t, key := nm })

end SCoda
