/-
  Prelude and link table of the translation in `Gen/StaticFns.lean` (regenerated on every run by
  tools/py2lean_static.py from scoda/sequences/sequence.py — `sequences_split_bars`, `sequences_load`,
  `sequences_save`, `to_midi_track`, `get_message_times_of_type` —, scoda/midi/midi_file.py — `__init__`, `convert`, `parse_mido`, `open` —,
  scoda/midi/midi_track.py — `parse_mido_track` — and scoda/midi/midi_message.py — `parse_mido_message`).

  Hand-written, core Lean only.  Three kinds of definitions:
  * Python list / dict / iterator primitives with their exceptions (`pyPop0`, `pySetNat`, `pyNext`, `pyIndexOf`, `pyDictGet`);
  * value representations: `GMidiFile` (a `MidiFile` object: its tracks, each a list of `MidiEv`, and `self.PPQN`),
    `MidoFile` (what `mido.MidiFile(filename)` hands to the parser), `PRef` (a *reference* local: which object a
    variable such as `current_sequence` currently names — identity is modelled by position, see tools/py2lean_static.py);
  * links (one assumption each): `AbsoluteSequence.get_message_times_of_type`, `RelativeSequence.to_midi_track`,
    `mido.MidiFile(filename)`; the stated fuel of the one `while` loop (`splitBarsFuel`).

  Exceptions outside the `Err` enum of Model/Msg.lean: `StopIteration` (`next` without default on an exhausted
  generator), `AttributeError` / `TypeError` (method call on / subscript of `None`) have no constructor in `Err`; they are
  mapped to `Err.fuel` through the three names below.  The equality theorems of Props/StaticTie.lean show that the
  translated functions never raise them.
-/
import SCoda.Model.ElemLib
import SCoda.Model.MidiParse
namespace SCoda

/-- `StopIteration` (no counterpart in `Err`) -/
abbrev Err.stopIteration : Err := .fuel
/-- `AttributeError: 'NoneType' object has no attribute …` (no counterpart in `Err`) -/
abbrev Err.attributeError : Err := .fuel
/-- `TypeError: 'NoneType' object is not subscriptable` (no counterpart in `Err`) -/
abbrev Err.typeError : Err := .fuel

/-- `l.pop(0)`: the popped element and the rest (`IndexError` on an empty list) -/
def pyPop0 {α} (l : List α) : Except Err (α × List α) :=
  match l with
  | [] => .error .indexError
  | x :: xs => .ok (x, xs)

/-- `l[i] = v` for a natural index (`IndexError` when out of range) -/
def pySetNat {α} (l : List α) (i : Nat) (v : α) : Except Err (List α) :=
  if i < l.length then .ok (l.set i v) else .error .indexError

/-- `l[i] = v` for an integer index (negative indices count from the end) -/
def pySetInt {α} (l : List α) (i : Int) (v : α) : Except Err (List α) :=
  if 0 ≤ i then pySetNat l i.toNat v
  else if (-i).toNat ≤ l.length then pySetNat l (l.length - (-i).toNat) v else .error .indexError

/-- `next(x for x in l if p x)` without a default (`StopIteration` when no element passes) -/
def pyNext {α} (l : List α) (p : α → Bool) : Except Err α :=
  match l.find? p with
  | some x => .ok x
  | Option.none => .error Err.stopIteration

/-- `l.index(x)`: position of the first element equal (`==`) to `x` (`ValueError` when absent) -/
def pyIndexOf {α} [BEq α] (l : List α) (x : α) : Except Err Nat :=
  if l.contains x then .ok (l.idxOf x) else .error .valueError

/-- `d[k]` on a dict given as an insertion-ordered association list (`KeyError` when absent) -/
def pyDictGet {κ ν} [BEq κ] (d : List (κ × ν)) (k : κ) : Except Err ν :=
  match d.lookup k with
  | some v => .ok v
  | Option.none => .error .keyError

/-- the value of an `Optional` local where Python subscripts / dereferences it (`TypeError` on `None`) -/
def pyUnwrap {α} (o : Option α) : Except Err α :=
  match o with
  | some x => .ok x
  | Option.none => .error Err.typeError

/-- an attribute that only some objects have (`mido_message.channel`): `AttributeError` when absent -/
def pyAttr {α} (o : Option α) : Except Err α :=
  match o with
  | some x => .ok x
  | Option.none => .error Err.attributeError

/-- a reference local: `root = 0` is `None`; `root = k > 0` names the k-th place a reference of this function can be
    bound to (numbered in source order by the translator, listed in the generated comment), `path` the list indices
    evaluated when the reference was bound.  Object identity is modelled by this position. -/
structure PRef where
  root : Nat := 0
  path : List Nat := []
  deriving DecidableEq, Repr, Inhabited

/-- a `MidiFile` object: `self.tracks` (each `MidiTrack` is its list of `MidiMessage`s, a `MidiEv` each) and `self.PPQN` -/
structure GMidiFile where
  tracks : List (List MidiEv) := []
  ppqn : Int := 0
  deriving DecidableEq, Repr, Inhabited

/-- what `mido.MidiFile(filename)` hands over: `ticks_per_beat` and the tracks (lists of mido messages) -/
structure MidoFile where
  ticksPerBeat : Int := 480
  tracks : List (List MidoMsg) := []
  deriving DecidableEq, Repr, Inhabited

/-- `MidiMessage()`: every field `None` (`message_type = None` is `.sequenceControl`, `channel = None` is `pyNone`:
    the encoding of `MidiEv`, Model/Midi.lean) -/
def MidiEv.empty : MidiEv := { ty := .sequenceControl, ch := pyNone }

/-- `ReadOnlyMessage(m)` / `m.copy()`: a new message built by `Message.__init__` from all fields of `m`
    (so a `None` channel becomes 0); value semantics -/
def pyMsgCopy (m : Msg) : Msg := { m with ch := if m.ch = pyNone then 0 else m.ch }

/-- Python's `round(x)` of a float, on the exact rational (`roundHalfEven` of Model/Midi.lean) -/
def pyRound (q : Rat) : Int := roundHalfEven q

/-- the length of a sequence in ticks, read through its relative view (0 if it cannot be read) -/
def seqTicks (s : Seq) : Nat :=
  match s.readRel with
  | .ok p => (totalWait p.2).toNat
  | .error _ => 0

/-- the stated bound of the `while not tracks_synchronised` loop of `sequences_split_bars`: the longest input in ticks,
    plus the number of tracks, plus two (every round consumes a bar of at least one tick of every unfinished track; this is
    the fuel of the hand model `splitBars`) -/
def splitBarsFuel (seqs : List Seq) : Nat :=
  ((seqs.map seqTicks).foldl max 0) + seqs.length + 2

namespace View

/-- link: `AbsoluteSequence.get_message_times_of_type(message_types)` (absolute_sequence.py:508-523): the messages whose
    type is listed, in order, each with its `time`; the view is left as it was -/
def abs_get_message_times_of_type (_ : Env) (a : List Msg) (tys : List MType) : Except Err (List Msg × List (Int × Msg)) :=
  .ok (a, (a.filter (fun m => tys.contains m.ty)).map (fun m => (m.time, m)))

/-- link: `RelativeSequence.to_midi_track()` (relative_sequence.py:458-469): a `MidiTrack` whose messages carry the fields of
    the sequence's messages; the view-level translation `Gen.View.toMidiTrack` is proved to be this identity
    (`ViewTie.toMidiTrack_eq`); the view is left as it was -/
def rel_to_midi_track (_ : Env) (r : List Msg) : Except Err (List Msg × List MidiEv) := .ok (r, r)

/-- link: `mido.MidiFile(filename)` — the file at a path *is* its parsed content (the codec of `mido` is not modelled);
    `mido.MidiFile(None)` is a new empty file with mido's default resolution of 480 ticks per beat -/
def mido_open (f : Option MidoFile) : Except Err MidoFile := .ok (f.getD { ticksPerBeat := 480, tracks := [] })

end View
end SCoda
