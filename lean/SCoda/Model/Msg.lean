/-
  Model of `scoda.elements.message.Message` and `scoda.enumerations.message_type.MessageType`.

  Conventions (DESIGN §2.2):
  * every field is an `Int`; Python `None` is the out-of-band value `-1` (`pyNone`), printed `N`
    on the line protocol.  No modelled operation does arithmetic on a field that can be `None`
    (a relative non-wait message has `time = None`; `note`/`vel`/… are payload).
  * `ch` is never `None`: `Message.__init__` replaces a `None` channel by `0`.
-/
namespace SCoda

/-- `MessageType`, constructors in the source order of the Python enum (the code sorts by
    that order through `MessageType.__lt__`).  `Gen.messageTypeOrder` is compared with
    `MType.names` by a `decide` theorem in `Props/Ties.lean`. -/
inductive MType
  | internal | sequenceControl | keySignature | timeSignature | controlChange
  | programChange | noteOff | noteOn | wait
  deriving DecidableEq, Repr, Inhabited

namespace MType

def all : List MType :=
  [internal, sequenceControl, keySignature, timeSignature, controlChange,
   programChange, noteOff, noteOn, wait]

/-- position in the enum; `MessageType.__lt__` compares these -/
def rank : MType → Nat
  | internal => 0 | sequenceControl => 1 | keySignature => 2 | timeSignature => 3
  | controlChange => 4 | programChange => 5 | noteOff => 6 | noteOn => 7 | wait => 8

def name : MType → String
  | internal => "INTERNAL" | sequenceControl => "SEQUENCE_CONTROL"
  | keySignature => "KEY_SIGNATURE" | timeSignature => "TIME_SIGNATURE"
  | controlChange => "CONTROL_CHANGE" | programChange => "PROGRAM_CHANGE"
  | noteOff => "NOTE_OFF" | noteOn => "NOTE_ON" | wait => "WAIT"

def names : List String := all.map name

def ofNat? : Nat → Option MType
  | 0 => some internal | 1 => some sequenceControl | 2 => some keySignature
  | 3 => some timeSignature | 4 => some controlChange | 5 => some programChange
  | 6 => some noteOff | 7 => some noteOn | 8 => some wait | _ => none

theorem ofNat?_rank (t : MType) : ofNat? t.rank = some t := by cases t <;> rfl

theorem rank_injective {a b : MType} (h : a.rank = b.rank) : a = b := by
  cases a <;> cases b <;> first | rfl | (simp [rank] at h)

end MType

/-- the out-of-band value standing for Python `None` -/
def pyNone : Int := -1

structure Msg where
  ty   : MType
  ch   : Int := 0
  time : Int := pyNone
  note : Int := pyNone
  vel  : Int := pyNone
  ctl  : Int := pyNone
  prog : Int := pyNone
  num  : Int := pyNone
  den  : Int := pyNone
  key  : Int := pyNone
  deriving DecidableEq, Repr, Inhabited

namespace Msg

def isWait (m : Msg) : Bool := m.ty == .wait
def isOn (m : Msg) : Bool := m.ty == .noteOn
def isOff (m : Msg) : Bool := m.ty == .noteOff
def isNote (m : Msg) : Bool := m.isOn || m.isOff
def isInternal (m : Msg) : Bool := m.ty == .internal

/-- `Message(message_type=WAIT, channel=c, time=t)` -/
def mkWait (c t : Int) : Msg := { ty := .wait, ch := c, time := t }
/-- `Message(message_type=NOTE_OFF, channel=c, note=n, time=t)` -/
def mkOff (c n t : Int) : Msg := { ty := .noteOff, ch := c, note := n, time := t }
/-- `Message(message_type=NOTE_ON, channel=c, note=n, velocity=v, time=t)` -/
def mkOn (c n v t : Int) : Msg := { ty := .noteOn, ch := c, note := n, vel := v, time := t }
/-- `Message(message_type=INTERNAL, channel=c, time=t)` -/
def mkInternal (c t : Int) : Msg := { ty := .internal, ch := c, time := t }
/-- `Message(message_type=TIME_SIGNATURE, channel=c, numerator=n, denominator=d, time=t)` -/
def mkTimeSig (c n d t : Int) : Msg := { ty := .timeSignature, ch := c, num := n, den := d, time := t }

/-- the `(channel, pitch)` key used for note bookkeeping -/
def nkey (m : Msg) : Int × Int := (m.ch, m.note)

end Msg

/-- Error enum onto which the harness maps Python exception types. -/
inductive Err
  | barError | tokenisationError | keyError | valueError | indexError | sequenceStale
  | sequenceError | fuel
  deriving DecidableEq, Repr, Inhabited

def Err.name : Err → String
  | .barError => "BarException" | .tokenisationError => "TokenisationException"
  | .keyError => "KeyError" | .valueError => "ValueError" | .indexError => "IndexError"
  | .sequenceStale => "SequenceStale" | .sequenceError => "SequenceException" | .fuel => "FUEL"

end SCoda
