/-
  Model of `AbsoluteSequence.quantise` AFTER the repair of finding D41 (fix_D41.diff):

      def quantise(self, step_sizes=None):
          if step_sizes is None: step_sizes = get_default_step_sizes()
          self.normalise_absolute()          # <- the repair (absolute_sequence.py:205-207 of the repaired source)
          … the walk over self._messages of Model/Quantise.lean (`SCoda.quantise`), unchanged …

  `normalise_absolute` is `self.sort()` (absolute_sequence.py:181-182), whose model is `sortAbs` (Model/Sort.lean; generated
  text = `sortAbs`: `ViewTie.normaliseAbsolute_eq`).  `SCoda.quantise` stays the model of the walk over a GIVEN order (every theorem
  about it stays true); the repaired method is that walk on the canonical order of the stored messages.
-/
import SCoda.Model.Quantise
namespace SCoda

/-- `AbsoluteSequence.normalise_absolute()` (= `self.sort()`) -/
abbrev normaliseAbs (a : List Msg) : List Msg := sortAbs a

/-- `AbsoluteSequence.quantise(step_sizes)` of the repaired source: sort (`normalise_absolute`), then the walk -/
def quantiseS (steps : List Int) (a : List Msg) : Except Err (List Msg) := quantise steps (normaliseAbs a)

end SCoda
