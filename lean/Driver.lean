/-
  Line-protocol driver for the correspondence check (DESIGN §2.4).
  One request per line: `<op> <word>*`; one answer line per request.
  Run:  lake env lean --run Driver.lean < requests > answers
  Imports Model + Gen only (no Mathlib).
-/
import SCoda.Model.Midi
import SCoda.Model.Render
import SCoda.Model.Extract
import SCoda.Gen.Tables
import SCoda.Gen.Settings
import SCoda.Gen.TheoryFns
import SCoda.Model.BarOps
import SCoda.Model.MidiParse
import SCoda.Model.MidoCodec

open SCoda

/-! ### word parser -/

abbrev P := StateT (List String) (Except String)

def word : P String := do
  match (← get) with
  | [] => throw "eof"
  | w :: ws => set ws; pure w

def pint : P Int := do
  let w ← word
  if w == "N" then pure pyNone else
  match w.toInt? with
  | some v => pure v
  | none => throw s!"bad int {w}"

def pnat : P Nat := do
  let v ← pint
  if v < 0 then throw "negative" else pure v.toNat

def pbool : P Bool := do pure ((← pint) != 0)

def many {α} (p : P α) : P (List α) := do
  let n ← pnat
  let rec go : Nat → List α → P (List α)
    | 0, acc => pure acc.reverse
    | k + 1, acc => do let x ← p; go k (x :: acc)
  go n []

def msg : P Msg := do
  let ty ← pnat
  let ch ← pint; let time ← pint; let note ← pint; let vel ← pint; let ctl ← pint
  let prog ← pint; let num ← pint; let den ← pint; let key ← pint
  match MType.ofNat? ty with
  | some t => pure { ty := t, ch, time, note, vel, ctl, prog, num, den, key }
  | none => throw "bad type"

def msgs : P (List Msg) := many msg
def ints : P (List Int) := many pint
def optInts : P (Option (List Int)) := do
  let present ← pbool
  if present then some <$> ints else pure none

def restWords : P (List String) := do
  let ws ← get; set ([] : List String); pure ws

/-! ### printers -/

def pInt (v : Int) : String := if v == pyNone then "N" else toString v

def pMsg (m : Msg) : String :=
  ",".intercalate [toString m.ty.rank, pInt m.ch, pInt m.time, pInt m.note, pInt m.vel, pInt m.ctl,
                   pInt m.prog, pInt m.num, pInt m.den, pInt m.key]

def pMsgs (l : List Msg) : String := "[" ++ ";".intercalate (l.map pMsg) ++ "]"
def pInts (l : List Int) : String := "[" ++ ",".intercalate (l.map pInt) ++ "]"
def pBool (b : Bool) : String := if b then "1" else "0"
def pErr (e : Err) : String := "ERR " ++ e.name
def pExcept {α} (f : α → String) : Except Err α → String
  | .ok a => f a
  | .error e => pErr e
def pOptInt : Option Int → String
  | some v => if v == -1000000 then "N" else toString v
  | none => "RAISE"

def pPairing (p : Pairing) : String := "<" ++ ";".intercalate (p.map pMsg) ++ ">"

def pBar (b : Bar) : String := s!"BAR {pInt b.num} {pInt b.den} {pInt b.key} {pMsgs b.seq}"

def pSeq (s : Seq) : String :=
  -- both views as the harness reads them (`.abs` then `.rel`, which refreshes)
  match s.readAbs with
  | .error e => pErr e
  | .ok (s, a) =>
    match s.readRel with
    | .error e => pErr e
    | .ok (_, r) => s!"A{pMsgs a} R{pMsgs r}"

/-! ### environment from the generated settings -/

def tkFn (k by_ : Int) : Int :=
  if k == pyNone then pyNone else
  match Gen.transposeKey k by_ with
  | some v => if v == -1000000 then pyNone else v
  | none => -2     -- the Python function raised

def env : Env :=
  { ppqn := Gen.ppqn, noteLo := Gen.noteLowerBound, noteHi := Gen.noteUpperBound,
    defSteps := Gen.defaultStepSizes, defValues := Gen.defaultNoteValues, tk := tkFn }

def cofFn (p : Int) : Int := (Gen.getPosition p).getD (-99)

def cfg : P Cfg := do
  let ppqn ← pint; let numTracks ← pnat; let lo ← pint; let hi ← pint
  let steps ← ints; let values ← ints; let bins ← ints
  let tsLo ← pint; let tsHi ← pint
  let running ← pbool; let fuseTrk ← pbool; let fuseVal ← pbool; let fuseVel ← pbool; let simplifyTs ← pbool
  pure { ppqn, numTracks, pitchLo := lo, pitchHi := hi, steps, values, bins, tsLo, tsHi,
         running, fuseTrk, fuseVal, fuseVel, simplifyTs,
         defNum := Gen.defaultTimeSignatureNumerator, defDen := Gen.defaultTimeSignatureDenominator }

def tokSt (c : Cfg) : P TokSt := do
  let present ← pbool
  if !present then pure (TokSt.init c) else
  let curTime ← pint; let curTimeBar ← pint; let tsNum ← pint; let tsDen ← pint; let capRem ← pint
  let prvTrack ← pint; let prvValue ← pint; let prvVel ← pint
  pure { curTime, curTimeBar, tsNum, tsDen, capRem, prvTrack, prvValue, prvVel }

def pTokSt (s : TokSt) : String :=
  " ".intercalate ([s.curTime, s.curTimeBar, s.tsNum, s.tsDen, s.capRem, s.prvTrack, s.prvValue, s.prvVel].map toString)

def parseToks (ws : List String) : Except String (List Tok) :=
  ws.mapM (fun w => match parseTok w with
    | .ok t => .ok t
    | .error .invalidToken => .error "ERR TokenisationException"
    | .error .valueError => .error "ERR ValueError")

def pInfoRow (r : Int × Int × Int × Option Int × Option Int) : String :=
  let o : Option Int → String := fun x => match x with | some v => toString v | none => "nan"
  s!"{r.1},{r.2.1},{r.2.2.1},{o r.2.2.2.1},{o r.2.2.2.2}"

/-! ### wrapper histories -/

def editFn (kind : Nat) (arg : Int) (m : Msg) : Msg :=
  match kind with
  | 0 => if m.ty == .noteOn || m.ty == .noteOff then { m with note := m.note + arg } else m   -- shift pitch
  | 1 => if m.ty == .noteOn then { m with vel := arg } else m                                  -- set velocity
  | 2 => { m with ch := arg }                                                                  -- set channel
  | _ => m

/-- one wrapper operation read from the word stream; returns the new state and an output word -/
def seqOp (s : Seq) : P (Except Err (Seq × String)) := do
  let op ← word
  match op with
  | "readAbs" => pure (s.readAbs.map (fun (s, a) => (s, "A" ++ pMsgs a)))
  | "readRel" => pure (s.readRel.map (fun (s, r) => (s, "R" ++ pMsgs r)))
  | "refresh" => pure (s.refresh.map (fun s => (s, "ok")))
  | "copy" => pure (.ok (s.copy, "ok"))
  | "addAbs" => do let m ← msg; pure ((s.addAbsMsg m).map (·, "ok"))
  | "addRel" => do
    let m ← msg; let hasIdx ← pbool
    let idx ← if hasIdx then some <$> pnat else pure none
    pure ((s.addRelMsg m idx).map (·, "ok"))
  | "normalise" => pure (s.normaliseSeq.map (·, "ok"))
  | "pad" => do let n ← pint; pure ((s.padSeq n).map (·, "ok"))
  | "setChannel" => do let c ← pint; pure ((s.setChannelSeq c).map (·, "ok"))
  | "cutoff" => do let m ← pint; let r ← pint; pure ((s.cutoffSeq m r).map (·, "ok"))
  | "quantise" => do let st ← optInts; pure ((Seq.quantiseSeq env s st).map (·, "ok"))
  | "qnl" => do
    let v ← optInts; let dne ← pbool
    pure ((Seq.qnlSeq env s v env.ppqn dne).map (·, "ok"))
  | "quantiseAndNormalise" => pure ((Seq.quantiseAndNormalise env s).map (·, "ok"))
  | "concat" => do let others ← many msgs; pure ((s.concatSeq others).map (·, "ok"))
  | "merge" => do let others ← many msgs; pure ((s.mergeSeq others).map (·, "ok"))
  | "overwriteAbs" => do let ms ← msgs; pure (.ok (s.overwriteAbs ms, "ok"))
  | "overwriteRel" => do let ms ← msgs; pure (.ok (s.overwriteRel ms, "ok"))
  | "editAbs" => do let k ← pnat; let a ← pint; pure ((s.editAbs (editFn k a)).map (·, "ok"))
  | "editRel" => do let k ← pnat; let a ← pint; pure ((s.editRel (editFn k a)).map (·, "ok"))
  -- reading the other view between receiving a message and editing it does not change the outcome
  | "editAbsPeek" => do let k ← pnat; let a ← pint; pure ((s.editAbs (editFn k a)).map (·, "ok"))
  | "editRelPeek" => do let k ← pnat; let a ← pint; pure ((s.editRel (editFn k a)).map (·, "ok"))
  -- edit only the first yielded message, then abandon the iterator (its `finally` still invalidates)
  | "editAbsFirst" => do
    let k ← pnat; let a ← pint
    pure ((s.onAbs (fun l => .ok (match l with | [] => [] | m :: ms => editFn k a m :: ms))).map (·, "ok"))
  | "editRelFirst" => do
    let k ← pnat; let a ← pint
    pure ((s.onRel (fun l => .ok (match l with | [] => [] | m :: ms => editFn k a m :: ms))).map (·, "ok"))
  | "transpose" => do
    let b ← pint
    pure ((Seq.transposeSeq env s b).map (fun (s, f) => (s, pBool f)))
  | "scale" => do let k ← pint; let q ← pbool; pure ((Seq.scaleSeq env s k q).map (·, "ok"))
  | "split" => do
    let caps ← ints
    pure ((s.splitSeq caps).map (fun (s, ps) => (s, "P" ++ " ".intercalate (ps.map (fun p => pMsgs p.rel)))))
  | "flags" => pure (.ok (s, s!"F{pBool s.absStale}{pBool s.relStale}"))
  | "pairings" => do
    -- sorts the absolute view in place
    pure (s.readAbs.map (fun (s, a) => ({ s with abs := sortAbs a }, "ok")))
  | _ => throw s!"unknown seq op {op}"

partial def seqHistory (s : Seq) (acc : List String) : P (List String) := do
  if (← get).isEmpty then pure acc.reverse else
  match (← seqOp s) with
  | .ok (s', out) => seqHistory s' (out :: acc)
  | .error e => seqHistory s (pErr e :: acc)

def initSeq : P Seq := do
  let kind ← word
  match kind with
  | "new" => pure Seq.new
  | "abs" => do let a ← msgs; pure (Seq.ofAbs (a.foldl insort []))   -- built by add_absolute_message
  | "rel" => do let r ← msgs; pure (Seq.ofRel r)
  | _ => throw "bad init"

/-! ### request dispatch -/

def handle : P String := do
  let op ← word
  match op with
  | "ping" => pure "pong"
  | "toRel" => do pure (pMsgs (toRel (← msgs)))
  | "toAbs" => do pure (pMsgs (toAbs (← msgs)))
  | "sort" => do pure (pMsgs (sortAbs (← msgs)))
  | "insortAll" => do pure (pMsgs ((← msgs).foldl insort []))
  | "normalise" => do pure (pMsgs (normalise (← msgs)))
  | "pad" => do let n ← pint; pure (pMsgs (pad n (← msgs)))
  | "setChannel" => do let c ← pint; pure (pMsgs (setChannel c (← msgs)))
  | "scaleRel" => do let k ← pint; pure (pMsgs (scaleRel k (← msgs)))
  | "transposeRel" => do
    let b ← pint; let r ← msgs
    let (r', f) := transposeRel env.noteLo env.noteHi (fun k => tkFn k b) b r
    pure (pBool f ++ " " ++ pMsgs r')
  | "split" => do
    let caps ← ints; let r ← msgs
    pure (pExcept (fun ps => " ".intercalate (ps.map pMsgs)) (split r caps))
  | "pairings" => do
    let types ← many pnat; let std ← pint; let imp ← pbool; let a ← msgs
    let ts := types.filterMap MType.ofNat?
    let cp := pairings ts std imp a
    pure (" ".intercalate (cp.map (fun c => s!"{c.1}:" ++ "".intercalate (c.2.map pPairing))))
  | "interleaved" => do
    let types ← many pnat; let std ← pint; let imp ← pbool; let a ← msgs
    let ts := types.filterMap MType.ofNat?
    pure (" ".intercalate ((interleaved ts std imp a).map (fun c => s!"{c.1}:" ++ pPairing c.2)))
  | "equals" => do
    let ic ← pbool; let its ← pbool; let iks ← pbool; let iv ← pbool
    let a ← msgs; let b ← msgs
    pure (pBool (equalsAbs env.ppqn { ignoreCh := ic, ignoreTs := its, ignoreKs := iks, ignoreVel := iv } a b))
  | "cutoff" => do let m ← pint; let r ← pint; pure (pMsgs (cutoff m r (← msgs)))
  | "merge" => do let a ← msgs; let others ← many msgs; pure (pMsgs (mergeAbs a others))
  | "quantise" => do let steps ← ints; pure (pExcept pMsgs (quantiseS steps (← msgs)))
  | "qnl" => do
    let values ← ints; let std ← pint; let dne ← pbool
    pure (pExcept pMsgs (quantiseNoteLengths values std dne (← msgs)))
  | "bar" => do
    let n ← pint; let d ← pint; let key ← pint; let r ← msgs
    pure (pExcept pBar (mkBar env.ppqn r n d key))
  | "barCopy" => do
    let n ← pint; let d ← pint; let key ← pint; let r ← msgs
    pure (pExcept pBar ((mkBar env.ppqn r n d key) >>= (Bar.copy env.ppqn)))
  | "barTranspose" => do
    let n ← pint; let d ← pint; let key ← pint; let r ← msgs; let b ← pint
    pure (pExcept (fun (x : Bar × Bool) => pBool x.2 ++ " " ++ pBar x.1)
      ((mkBar env.ppqn r n d key) >>= (fun bar => Bar.transpose env bar b)))
  | "splitBars" => do
    let metaIdx ← pnat; let requant ← pbool; let tracks ← many msgs
    pure (pExcept (fun tb => " | ".intercalate (tb.map (fun bs => " ".intercalate (bs.map pBar))))
      (splitBars env.ppqn env.defValues tracks metaIdx requant))
  | "seq" => do
    let s ← initSeq
    let outs ← seqHistory s []
    pure (" ".intercalate outs)
  | "extract" => do
    let tracks ← many msgs
    pure (" ".intercalate ((extract env.ppqn tracks).map (fun c => s!"{c.1}:" ++ pPairing c.2)))
  | "tokenise" => do
    let c ← cfg; let st ← tokSt c; let tracks ← many msgs
    if tracks.length != c.numTracks then pure "ERR TokenisationException" else
    pure (pExcept (fun (r : List Tok × TokSt) => "T " ++ " ".intercalate (r.1.map render) ++ " | " ++ pTokSt r.2)
      (tokeniseCore c st (extract c.ppqn tracks)))
  | "detokenise" => do
    let c ← cfg; let ws ← restWords
    match parseToks ws with
    | .error e => pure e
    | .ok toks => pure (pExcept (fun seqs => " ".intercalate (seqs.map pMsgs)) (detokenise c toks))
  | "vocab" => do
    let c ← cfg
    pure (s!"{dictionarySize c} " ++ " ".intercalate ((vocabSeq c).map render))
  | "encode" => do
    let c ← cfg; let ws ← restWords
    match parseToks ws with
    | .error _ => pure "ERR KeyError"
    | .ok toks => match encode c toks with
      | some ids => pure (" ".intercalate (ids.map toString))
      | none => pure "ERR KeyError"
  | "decode" => do
    let c ← cfg; let ids ← many pnat
    match decode c ids with
    | some toks => pure (" ".intercalate (toks.map render))
    | none => pure "ERR KeyError"
  | "info" => do
    let c ← cfg; let imp ← pbool; let ws ← restWords
    match parseToks ws with
    | .error e => pure e
    | .ok toks => pure (" ".intercalate ((getInfo c cofFn imp toks).map pInfoRow))
  | "toMido" => do pure (pMsgs (toMido (← msgs)))
  | "encodeMido" => do
    -- the mido objects the translated `to_midi_track().to_mido_track()` hands over (Model/MidoCodec.lean), attribute by attribute
    let pm (m : MidoMsg) : String :=
      let ch := match m.channel with | some c => toString c | none => "N"
      match m.type with
      | .noteOn => s!"note_on,{m.time},{ch},{m.note},{m.velocity}"
      | .noteOff => s!"note_off,{m.time},{ch},{m.note},{m.velocity}"
      | .timeSignature => s!"time_signature,{m.time},{m.numerator},{m.denominator}"
      | .keySignature => s!"key_signature,{m.time},{m.key}"
      | .controlChange => s!"control_change,{m.time},{ch},{m.control},{m.value}"
      | .programChange => s!"program_change,{m.time},{ch},{m.program}"
      | .other => s!"other,{m.time}"
    match toMidoObjects (← msgs) with
    | .ok l => pure ("[" ++ ";".intercalate (l.map pm) ++ "]")
    | .error _ => pure "ERR"
  | "parseMido" => do
    let ty ← pnat; let time ← pint; let chw ← word
    let note ← pint; let velocity ← pint; let numerator ← pint; let denominator ← pint
    let key ← word; let control ← pint; let value ← pint; let program ← pint
    let channel : Option Int := if chw == "N" then none else chw.toInt?
    let mty : MidoType := match ty with
      | 0 => .noteOn | 1 => .noteOff | 2 => .timeSignature | 3 => .keySignature | 4 => .controlChange
      | 5 => .programChange | _ => .other
    pure (pExcept pMsg (parseMido { type := mty, time, channel, note, velocity, numerator, denominator, key, control, value, program }))
  | "convert" => do
    let filePpq ← pint; let target ← pint; let groups ← many (many pnat); let metaIdx ← many pnat
    let tracks ← many msgs
    pure (pExcept (fun seqs => " | ".intercalate (seqs.map pSeq))
      (convert env.ppqn filePpq tracks groups metaIdx target))
  | "transposeKey" => do let k ← pint; let b ← pint; pure (pOptInt (Gen.transposeKey k b))
  | "getPosition" => do pure (pOptInt (Gen.getPosition (← pint)))
  | "getDistance" => do let a ← pint; let b ← pint; pure (pOptInt (Gen.getDistance a b))
  | "fromDistance" => do let a ← pint; let b ← pint; pure (pOptInt (Gen.fromDistance a b))
  | _ => throw s!"unknown op {op}"

def answer (line : String) : String :=
  let ws := (line.splitOn " ").filter (· ≠ "")
  match (handle.run ws) with
  | .ok (out, []) => out
  | .ok (_, rest) => s!"PROTOCOL-ERROR trailing {rest.length}"
  | .error e => s!"PROTOCOL-ERROR {e}"

partial def loop (h : IO.FS.Stream) (out : IO.FS.Stream) : IO Unit := do
  let line ← h.getLine
  if line.isEmpty then return ()
  out.putStrLn (answer (line.trimAsciiEnd.toString))
  loop h out

def main : IO Unit := do
  let stdin ← IO.getStdin
  let stdout ← IO.getStdout
  loop stdin stdout
  stdout.flush

example : tkFn = SCoda.genTk := rfl
example : cofFn = SCoda.genCof := rfl
example : env = SCoda.genEnv := rfl
